#!/bin/bash
# usage: lib/sweep.sh <tier> <props...>   -- runs the checks one after the other, one summary line each
tier=$1; shift
for p in "$@"; do
  s=$(date +%s); ./check $p --tier $tier > sweep_${tier}_$p.log 2>&1; rc=$?; e=$(date +%s)
  echo "$p tier=$tier rc=$rc $((e-s))s"; grep -E "^INCONCLUSIVE|^VIOLATION|^KNOWN" sweep_${tier}_$p.log | head -20
done
