"""setup_cmd: build everything the checks need from files on disk (offline)."""
import os, sys, subprocess, time
HERE = os.path.dirname(os.path.abspath(__file__))
sys.path.insert(0, HERE)
import driver, overlay


def main():
    t0 = time.time()
    slot = driver.Slot()
    try:
        ov = os.path.join(slot.scratch, 'ov_setup')
        overlay.make_overlay(ov)  # every harness part: also proves that all harnesses compile on the pinned tree
        lf = os.path.join(driver.CACHE, 'setup_codegen.log')
        rc, to, dt = driver.run_capped(['cargo', 'kani', '--target-dir', slot.kani_target, '-Z', 'stubbing', '--only-codegen'], ov, lf, 3600)
        print('kani codegen of all harness parts: rc=%s %.0fs (log %s)' % (rc, dt, lf))
        if rc != 0:
            print(open(lf).read()[-3000:])
            return 1
    finally:
        slot.release()
    # differential self-test of the library models against the real crates (native cargo test)
    st = os.path.join(os.path.dirname(HERE), 'selftest')
    env = dict(driver.ENV, CARGO_TARGET_DIR=os.path.join(driver.CACHE, 'selftest'))
    import shutil
    shutil.copy(os.path.join(overlay.REPO, 'Cargo.lock'), os.path.join(st, 'Cargo.lock'))
    r = subprocess.run(['cargo', 'test', '--offline'], cwd=st, env=env, stdout=subprocess.PIPE, stderr=subprocess.STDOUT, text=True)
    ok = r.returncode == 0
    print('model self-test (models vs real hashbrown/ndarray/rayon): %s' % ('ok' if ok else 'FAILED'))
    if not ok:
        print(r.stdout[-3000:])
        return 1
    print('setup done in %.0fs' % (time.time() - t0))
    return 0
