#!/usr/bin/env python3
"""Generate /verif/MANIFEST.json from obligations.py + propmeta.py (keeps the manifest in sync)."""
import os, sys, json
HERE = os.path.dirname(os.path.abspath(__file__))
VERIF = os.path.dirname(HERE)
sys.path.insert(0, HERE); sys.path.insert(0, VERIF)
import obligations, propmeta

ALL = ['C%02d' % i for i in range(1, 21)]
claimed = [p for p in ALL if p in propmeta.META and propmeta.META[p].get('claimed', True) and any(p in o['props'] for o in obligations.OBL)]
checks = []
for p in claimed:
    m = propmeta.META[p]
    nq = len([o for o in obligations.OBL if p in o['props'] and (o['tier'] == 'quick')])
    nt = len([o for o in obligations.OBL if p in o['props']])
    checks.append({
        'property_id': p,
        'quick_cmd': './check %s --tier quick' % p,
        'thorough_cmd': './check %s --tier thorough' % p,
        'evidence_file': 'evidence/%s.json' % p,
        'replay_cmd_template': './check --replay {path}',
        'engine': 'kani-cbmc',
        'level_claimed': {
            'category': 'model_checking',
            'text': m.get('level_text', 'Bounded model checking of the real functions (Kani -> CBMC -> SAT): every input within the stated bounds is decided at once; nothing is claimed outside the bounds.'),
            'design_ref': 'DESIGN.md section 3, %s' % p,
        },
        'level_note': m.get('level_note', '') + ' Bounds: ' + m.get('bounds', '') + ' Outside the claim: ' + '; '.join(m.get('outside', [])) + ' Trusted: ' + '; '.join(m.get('assumptions', [])),
        'technique': m.get('technique', 'bounded model checking of the compiled Rust code (Kani 0.68 / CBMC 6.11, SAT), differential harnesses against independent specifications, unwinding assertions on, counterexamples replayed natively'),
    })
na = []
for p in ALL:
    if p not in claimed:
        na.append({'property_id': p, 'reason': propmeta.NOT_APPLICABLE.get(p, 'no check registered yet')})
man = {
    'version': 1,
    'setup_cmd': './check --setup',
    'hooks': {
        'guard': 'none (no source hooks in /repo: harness modules are appended to a scratch copy of the tree under cfg(kani))',
        'enable': 'cargo kani on the scratch overlay built by /verif/lib/overlay.py from /repo\'s working tree',
        'baseline_off_cmd': 'cd /repo && cargo test --workspace --no-fail-fast --offline',
        'source_commits': [],
        'add_only': True,
    },
    'engines': [{'name': 'kani-cbmc', 'path': 'lib/driver.py', 'serves_properties': claimed,
                 'kind_free_text': 'Kani 0.68 symbolic execution of the real Rust functions (overlay of /repo), CBMC 6.11 + CaDiCaL as the deciding solver; library models in /verif/models; native replay via cargo kani playback against the real libraries'}],
    'checks': checks,
    'not_applicable': na,
    'notes': 'All verdicts are bounded: see evidence/<id>.json (bounds, outside_claim) and DESIGN.md. Exit 2 = inconclusive (never a pass).',
}
json.dump(man, open(os.path.join(VERIF, 'MANIFEST.json'), 'w'), indent=1)
print('claimed:', claimed)
