"""Overlay construction: a scratch copy of /repo's current working tree with
(1) harness modules appended as child modules under cfg(kani) and
(2) import paths of modelled libraries redirected to /verif/models.

Function bodies of ska are never edited.  Everything done here is recorded in the evidence.
"""
import os, re, shutil

VERIF = os.path.dirname(os.path.dirname(os.path.abspath(__file__)))
REPO = os.environ.get('VERIF_REPO', '/repo')

# source files whose library imports are redirected to the models
MODEL_FILES = ['generic_modes.rs', 'ska_dict.rs', 'ska_dict/bloom_filter.rs', 'merge_ska_dict.rs',
               'merge_ska_array.rs', 'ska_ref.rs', 'coverage.rs']
MODELLED_CRATES = ['hashbrown', 'ndarray', 'needletail', 'rayon', 'indicatif']
SUBST_RE = re.compile(r'(?<![\w:])(' + '|'.join(MODELLED_CRATES) + r')::')

# source file -> harness module (in /verif/harness)
HOOKS = {
    'ska_dict/bit_encoding.rs': 'bit_encoding',
    'ska_dict/split_kmer.rs': 'split_kmer',
    'ska_dict/nthash.rs': 'nthash',
    'ska_dict/bloom_filter.rs': 'bloom_filter',
    'ska_dict.rs': 'ska_dict',
    'merge_ska_dict.rs': 'merge_ska_dict',
    'merge_ska_array.rs': 'merge_ska_array',
    'generic_modes.rs': 'generic_modes',
    'ska_ref.rs': 'ska_ref',
    'ska_ref/aln_writer.rs': 'aln_writer',
    'ska_ref/idx_check.rs': 'idx_check',
}

DEFAULT_CAPS = {'MCAP': 4, 'SCAP': 3, 'RCAP': 3, 'CCAP': 3}

# Environment stubs: one guarded early-return line inserted at the top of the body of I/O functions,
# in the overlay copy only, active only when a harness switches it on (identical under Kani and in the
# native replay).  (file, regex matching the signature up to and including the opening brace, inserted text)
ENV_STUBS = [
    ('merge_ska_array.rs', r'pub fn save\(&self, filename: &str\) -> Result<\(\), Box<dyn Error>> \{\n',
     '        #[cfg(kani)] if crate::verif_support::stub_io_active() { crate::verif_support::record_save(); return Ok(()); }\n'),
    ('io_utils.rs', r'pub fn set_ostream\(oprefix: &Option<String>\) -> BufWriter<Box<dyn Write>> \{\n',
     '    #[cfg(kani)] if crate::verif_support::stub_io_active() { return BufWriter::new(Box::new(Vec::<u8>::new()) as Box<dyn Write>); }\n'),
    ('merge_ska_array.rs', r'pub fn distance\(&self, constant: f64\) -> Vec<Vec<\(f64, f64\)>> \{\n',
     '        #[cfg(kani)] if crate::verif_support::rec_distance_active() { crate::verif_support::record_distance(constant, self.variants.nrows()); return Vec::new(); }\n'),
    ('ska_dict.rs', r'        proportion_reads: Option<f64>,\n    \) -> Self \{\n',
     '        #[cfg(kani)] if crate::verif_support::dict_provider_active() { let mut d = Self { k, rc, sample_idx, name: name.to_string(), split_kmers: HashMap::default(), kmer_filter: KmerFilter::default() }; let (pk, pb) = crate::verif_support::provided_entry(sample_idx); d.split_kmers.insert(<IntT as num_traits::NumCast>::from(pk).unwrap(), pb); return d; }\n'),
    ('merge_ska_array.rs', r'fn update_counts\(&mut self, filter_ambig_as_missing: bool\) \{\n',
     '        #[cfg(kani)] if !filter_ambig_as_missing && crate::verif_support::counts_exact_lemma_active() { return; }\n'),
    ('ska_ref/aln_writer.rs', r'pub fn write_split_kmer\(&mut self, mapped_pos: usize, mapped_chrom: usize, base: u8\) \{\n',
     '        #[cfg(kani)] if crate::verif_support::writer_stub_active() { return; }\n'),
    ('ska_ref/aln_writer.rs', r'pub fn finalise\(&mut self\) \{\n',
     '        #[cfg(kani)] if crate::verif_support::writer_stub_active() { return; }\n'),
    ('ska_dict/bloom_filter.rs', r'pub fn init\(&mut self\) \{\n',
     '        #[cfg(kani)] if crate::verif_support::stub_io_active() { self.buf_size = 4; self.buffer.resize(4, 0); return; }\n'),
]


def make_overlay(dst, caps=None, models=True, harness_dir=None, extra_consts=None, parts=None):
    """Build the overlay in dst (removed first). Returns a description dict for the evidence.

    parts: list of "<module>/<part>" naming files /verif/harness/<module>/<part>.rs; only these
    are compiled into the overlay (None = every part present)."""
    caps = dict(DEFAULT_CAPS, **(caps or {}))
    harness_dir = harness_dir or os.path.join(VERIF, 'harness')
    shutil.rmtree(dst, ignore_errors=True)
    os.makedirs(dst)
    shutil.copytree(os.path.join(REPO, 'src'), os.path.join(dst, 'src'))
    for f in ('Cargo.toml', 'Cargo.lock'):
        shutil.copy(os.path.join(REPO, f), dst)
    with open(os.path.join(dst, 'Cargo.toml'), 'a') as f:
        f.write('\n[workspace]\n\n[lints.rust]\nunexpected_cfgs = { level = "allow", check-cfg = [\'cfg(kani)\'] }\n')
    os.makedirs(os.path.join(dst, '.cargo'), exist_ok=True)
    with open(os.path.join(dst, '.cargo', 'config.toml'), 'w') as f:
        f.write('[net]\noffline = true\n')
    substituted = {}
    if models:
        for rel in MODEL_FILES:
            p = os.path.join(dst, 'src', rel)
            if not os.path.exists(p):
                continue
            s = open(p).read()
            s2, n = SUBST_RE.subn(r'crate::verif_models::\1::', s)
            s2 = s2.replace('extern crate needletail;', '')
            substituted[rel] = n
            open(p, 'w').write(s2)
    stubs_inserted = []
    for rel, pat, ins in ENV_STUBS:
        p = os.path.join(dst, 'src', rel)
        txt = open(p).read()
        m = re.search(pat, txt)
        if not m:
            raise RuntimeError('environment stub site not found in %s: %s' % (rel, pat))
        txt = txt[:m.end()] + ins + txt[m.end():]
        open(p, 'w').write(txt)
        stubs_inserted.append(rel + ': ' + ins.strip())
    hooked = []
    for rel, mod in HOOKS.items():
        pdir = os.path.join(harness_dir, mod)
        p = os.path.join(dst, 'src', rel)
        if not (os.path.isdir(pdir) and os.path.exists(p)):
            continue
        sel = []
        for fn in sorted(os.listdir(pdir)):
            if not fn.endswith('.rs'):
                continue
            part = fn[:-3]
            if parts is None or ('%s/%s' % (mod, part)) in parts or part == 'common':
                sel.append(part)
        if parts is not None and not any(('%s/%s' % (mod, x)) in parts for x in sel):
            continue
        vh = os.path.join(dst, 'src', 'vh_%s.rs' % mod)
        with open(vh, 'w') as f:
            f.write('//! generated: harness parts selected for this run\n')
            for part in sel:
                f.write('#[path = "%s/%s.rs"] pub(crate) mod %s;\n' % (pdir, part, part))
        with open(p, 'a') as f:
            f.write('\n#[cfg(kani)] #[path = "%s"] pub(crate) mod verif_harness;\n' % vh)
        hooked.append({'file': rel, 'parts': sel})
    # generated bounds
    with open(os.path.join(dst, 'src', 'verif_bounds.rs'), 'w') as f:
        f.write('//! generated: capacities of the library models for this harness group\n')
        for k, v in caps.items():
            f.write('pub const %s: usize = %d;\n' % (k, v))
        for k, v in (extra_consts or {}).items():
            f.write('pub const %s: usize = %d;\n' % (k, v))
    mdir = os.path.join(VERIF, 'models_real' if models == 'real' else 'models')
    with open(os.path.join(dst, 'src', 'lib.rs'), 'a') as f:
        if models:
            f.write('''
#[cfg(kani)] pub mod verif_models {
    #[path = "%(ov)s/src/verif_bounds.rs"] pub mod bounds;
    #[path = "%(m)s/hashbrown.rs"] pub mod hashbrown;
    #[path = "%(m)s/ndarray.rs"] pub mod ndarray;
    #[path = "%(m)s/needletail.rs"] pub mod needletail;
    #[path = "%(m)s/rayon.rs"] pub mod rayon;
    #[path = "%(m)s/indicatif.rs"] pub mod indicatif;
}
#[cfg(kani)] #[path = "%(h)s/support.rs"] pub mod verif_support;
''' % {'ov': dst, 'm': mdir, 'h': harness_dir})
        else:
            f.write('''
#[cfg(kani)] pub mod verif_models {
    #[path = "%(ov)s/src/verif_bounds.rs"] pub mod bounds;
}
#[cfg(kani)] #[path = "%(h)s/support.rs"] pub mod verif_support;
''' % {'ov': dst, 'h': harness_dir})
    return {'caps': caps, 'import_redirections': substituted, 'hooked_files': hooked, 'models': models, 'env_stubs': stubs_inserted}
