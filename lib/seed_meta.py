#!/usr/bin/env python3
"""Write /verif/seeded/<id>/meta.json from the confirmation and check logs plus the descriptions below."""
import json, os, re, glob
S = '/verif/seeded'
DESC = {
 'C01-restart-window': ('C01', 'SplitKmer::build: the bounds re-check after skipping an N uses >= again', 'an N followed by exactly k valid bases up to the record end'),
 'C01-palindrome-S-arm': ('C01', 'add_palindrome_to_dict: the S arm tests base 0|3 instead of 0|2 (A,C,G,T order assumed)', 'both strands, a self-reverse-complement split k-mer seen twice, first with C/G then with G or T'),
 'C15-table-cell-G-H': ('C15', 'IUPAC table: cell (G, H) is H instead of N', 'a split k-mer seen with A, C, T and then G'),
 'C05-vcf-gt-index': ('C05', 'write_vcf: genotype index = number of ALT alleles so far instead of the position of this allele', '>= 3 samples and a multi-allelic site with ALT alleles in sample order x, y, x'),
 'C06-noambigorconst-early-break': ('C06', 'filter/NoAmbigOrConst: stops collecting symbols after two distinct ones', 'no-ambig-or-const, >= 3 samples, an ambiguity code (or a gap with --no-gap-only-sites) before the second distinct base'),
 'C06-skip-recount-minfreq0': ('C06', 'filter: recount (and removal of empty rows) skipped when the threshold is 0', '--min-freq 0 with --filter-ambig-as-missing and a column whose bases are all ambiguity codes'),
 'C07-pad-other-nsamples': ('C07', 'MergeSkaDict::extend pads a k-mer found only in the later file with the later file\'s sample count', 'files with different numbers of samples and a k-mer private to the later file'),
 'C07-strand-check-self': ('C07', 'MergeSkaDict::extend compares other.rc() with other.rc', 'inputs with the same k but different strand mode'),
 'C04-while-to-if-contig-skip': ('C04', 'AlnWriter::write_split_kmer advances over at most one contig per call (while -> if)', '>= 3 contigs and a sample whose next match is two or more contigs further on'),
 'C04-rc-iupac-K-M-swapped': ('C04', 'RC_IUPAC: K and M map to themselves', 'a K or M middle base on a reference k-mer stored as reverse complement, without --ambig-mask'),
 'C08-swap-remove-names': ('C08', 'delete_samples removes names with swap_remove (remaining names reordered, columns not)', 'deleting a sample that is not at the tail with two or more samples remaining'),
 'C13-early-return-reverse': ('C13', 'weed returns early when no k-mer matches, ignoring --reverse', '--reverse with weed sequences that share no split k-mer with the file'),
 'C12-guard-operands-swapped': ('C12', 'add_file_kmers: counting filter consulted before the middle-base quality test (main loop only)', 'FASTQ, min-count >= 2, the same k-mer seen with passing and failing middle-base quality, not the first window of a read'),
 'C16-u128-revcomp-mask-short': ('C16', 'u128::rev_comp: first-stage mask two hex digits short', 'k = 63 only (base position 61)'),
 'C16-hash-not-reset-after-N': ('C16', 'roll_fwd: the rolling ntHash is not replaced when the k-mer is rebuilt after an N', 'reads containing an N followed by >= k valid bases'),
 'C10-delete-decrements-stored-counts': ('C10', 'delete_samples decrements the stored counts instead of recounting', 'weed --filter-ambig-as-missing (stores counts of unambiguous bases) followed by delete of the sample holding the ambiguity code'),
 'C14-percent-threshold': ('C14', 'apply_filters: threshold computed from min_freq rounded to whole percent', '>= 3 samples and a --min-freq with more than two decimals that hits an integer threshold exactly (2/3 of 3)'),
 'C03-noconst-chunks-exact': ('C03', 'filter/NoConst rewritten: compares disjoint pairs of samples only (chunks_exact(2) for windows(2))', '>= 3 samples all present with alleles equal within each disjoint pair, e.g. C C A'),
 'C11-offset-dropped-depth3': ('C11', 'parallel_append: the top half of the recursive split gets offset split_point instead of offset + split_point', 'merge depth 3: --threads >= 8 with >= 70 input files'),
 'C01-upper-not-cleared-after-N': ('C01', 'SplitKmer::build: `upper` is not cleared when a window attempt is abandoned at an N', 'an N within the first k-1 bases of a record, or two Ns less than k apart, with non-A bases before it'),
 'C02-build-restart-bound-ge': ('C02', 'SplitKmer::build: bound check after skipping an N uses >= (top-of-function check left correct)', 'an invalid base exactly k+1 positions before the record end; the reverse-complemented record keeps the k-mer'),
 'C03-build-guard-flipped-ge': ('C03', 'SplitKmer::build: end-of-sequence guard rewritten as seq_len <= idx + k', 'a contig (or stretch after an N) of exactly k bases'),
 'C04-first-kmer-pos-hoisted': ('C04', 'RefSka::new: first split k-mer of each contig gets pos = half_split_len instead of get_middle_pos()', 'a reference contig with an N within its first k bases'),
 'C05-idxcheck-prev-end-reset': ('C05', 'IdxCheck::new: running total reset to the last contig length instead of accumulating', 'ska map -f vcf with a reference of >= 3 contigs'),
 'C06-percent-threshold-divceil': ('C06', 'apply_filters: threshold = (nsamples * round(min_freq*100)).div_ceil(100)', 'a --min-freq with more than two decimals whose dropped fraction crosses an integer (3 samples, 0.334)'),
 'C07-merge-swap-bigger-dict': ('C07', 'generic_modes::merge swaps the dictionaries when the incoming file has more than twice the k-mers merged so far', 'a later input with more than 2x the k-mers of everything merged before it'),
 'C08-delete-reduce-counts': ('C08', 'delete_samples subtracts the removed columns from the stored counts instead of recounting', 'a file saved by weed --filter-ambig-as-missing, then delete of one of two carriers of a k-mer (one plain, one ambiguous base)'),
 'C10-merge-inflated-counts-trusted': ('C10', 'MergeSkaArray::new counts cells != 0 (gaps of loaded arrays count); filter trusts stored counts at or above the threshold', 'ska merge with a multi-sample input that lacks a k-mer in one sample, then a --min-freq between the true and the inflated count'),
 'C12-strict-skips-middle-qual': ('C12', 'SplitKmer::build skips the strict quality test at the middle position', 'strict rule, a base below --min-qual exactly at offset (k-1)/2 from a read start or restart, read longer than k'),
 'C13-refska-exact-reserve-len-k': ('C13', 'RefSka::new: iterator only created when num_bases - k > 0', 'a weed/reference record of exactly k bases (plus a longer record, otherwise a loud panic)'),
 'C14-distance-empty-early-return': ('C14', 'MergeSkaArray::distance returns an empty Vec when no variable row is left', 'all samples identical, or --min-freq removing every non-constant k-mer'),
 'C16-nthash-fwd-only-rotl-k': ('C16', 'NtHashIterator::roll_fwd: single-strand early return removes the outgoing base with rotl(k) instead of rotl(k-1)', '--single-strand, FASTQ, --min-count >= 2, the same k-mer at different positions in reads'),
}
for sid, (prop, what, needs) in DESC.items():
    d = os.path.join(S, sid)
    if not os.path.isdir(d):
        continue
    conf = json.load(open(os.path.join(d, 'confirm.json'))) if os.path.exists(os.path.join(d, 'confirm.json')) else {}
    checks = {}
    for lf in glob.glob(os.path.join(d, 'check_*.log')):
        txt = open(lf, errors='replace').read()
        p = os.path.basename(lf)[6:-4]
        viol = re.findall(r'^VIOLATION property=(\S+) replay=(\S+)\n  obligation (\S+): (.*)$', txt, re.M)
        checks[p] = {'detected': bool(viol), 'violations': [{'obligation': v[2], 'failing': v[3][:200]} for v in viol],
                     'inconclusive': re.findall(r'^INCONCLUSIVE: (.*)$', txt, re.M)[:5], 'held': 'held on everything explored' in txt}
    meta = {'seed': sid, 'property_broken': prop, 'change': what, 'needs_to_manifest': needs,
            'confirmed_by_me': {'command': 'lib/confirm_seed.sh (scratch worktree of /repo HEAD): existing suite with the change, demo with and without the change', **conf},
            'checks_run': {'command': 'lib/run_seed.sh <seed> <property>  (quick tier against a scratch worktree with the patch applied)', 'results': checks}}
    json.dump(meta, open(os.path.join(d, 'meta.json'), 'w'), indent=1)
    det = {p: c['detected'] for p, c in checks.items()}
    print(sid, det)
