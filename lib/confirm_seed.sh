#!/bin/bash
# usage: lib/confirm_seed.sh <seed-id> <property> <agent-worktree> <seed-subdir (SEED|SEED2)> [demo-kind: test|sh]
# Confirms a seeded change independently (suite passes with it, demo fails with it and passes without it),
# stores it under /verif/seeded/<seed-id>/ and prints the commands that were run.
set -u
ID=$1; PROP=$2; WT=$3; SD=$4
OUT=/verif/seeded/$ID; mkdir -p $OUT
PATCH=$(ls $WT/$SD/patch*.diff | head -1)
cp $PATCH $OUT/patch.diff
[ -f $WT/$SD/README.md ] && cp $WT/$SD/README.md $OUT/agent_README.md
cd $WT
git checkout -q -- src 2>/dev/null
git apply --check $OUT/patch.diff || { echo "PATCH DOES NOT APPLY to clean tree"; exit 3; }
# --- without the change
if [ -f $WT/$SD/demo_test.rs ]; then cp $WT/$SD/demo_test.rs $WT/tests/seed_demo.rs; cp $WT/$SD/demo_test.rs $OUT/demo_test.rs; DEMO="cargo test --offline --test seed_demo"; else cp $WT/$SD/demo.sh $OUT/ 2>/dev/null; DEMO="bash $WT/$SD/demo.sh"; fi
export CARGO_NET_OFFLINE=true
( $DEMO > $OUT/demo_without.log 2>&1 ); RC_WITHOUT=$?
# --- with the change
git apply $OUT/patch.diff
# the existing suite, without the demo test file
rm -f $WT/tests/seed_demo.rs $WT/tests/seed_demo2.rs $WT/tests/seed2_demo.rs
( cargo test --workspace --offline --no-fail-fast > $OUT/suite_with.log 2>&1 ); SUITE_RC=$?
SUITE_FAIL=$(grep -E "^test .* FAILED$" $OUT/suite_with.log | wc -l)
SUITE_PASS=$(grep -E "^test result" $OUT/suite_with.log | awk '{s+=$4} END {print s}')
[ -f $WT/$SD/demo_test.rs ] && cp $WT/$SD/demo_test.rs $WT/tests/seed_demo.rs
( $DEMO > $OUT/demo_with.log 2>&1 ); RC_WITH=$?
git checkout -q -- src
rm -f $WT/merged.skf $WT/no_const_sites.skf
echo "seed=$ID property=$PROP demo_without_rc=$RC_WITHOUT demo_with_rc=$RC_WITH existing_suite_with_change: rc=$SUITE_RC passed=$SUITE_PASS failed=$SUITE_FAIL"
echo "{\"demo_without_rc\": $RC_WITHOUT, \"demo_with_rc\": $RC_WITH, \"existing_suite_rc_with_change\": $SUITE_RC, \"existing_suite_passed\": $SUITE_PASS, \"existing_suite_failed\": $SUITE_FAIL}" > $OUT/confirm.json
