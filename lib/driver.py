"""Driver: runs the obligations of one property through Kani/CBMC and reports per the interface.

Exit codes: 0 held (or only KNOWN-FINDING lines), 1 VIOLATION (counterexample reproduced natively),
2 inconclusive (timeout, OOM, vacuous harness, unwinding bound too small, model gap, compile error,
counterexample that does not reproduce).
"""
import os, sys, re, json, time, shutil, subprocess, fcntl, resource, signal, tempfile, glob
from concurrent.futures import ThreadPoolExecutor

HERE = os.path.dirname(os.path.abspath(__file__))
VERIF = os.path.dirname(HERE)
sys.path.insert(0, HERE)
sys.path.insert(0, VERIF)
import overlay  # noqa: E402

CACHE = os.environ.get('VERIF_CACHE', os.path.join(VERIF, '.cache'))
SCRATCH_ROOT = os.environ.get('VERIF_SCRATCH', '/tmp')
NSLOTS = 4
ENV = dict(os.environ, CARGO_NET_OFFLINE='true')
ENV.pop('RUSTFLAGS', None)


def log(*a):
    print(*a, flush=True)


# ---------------------------------------------------------------------------------------------
# slots: one Kani target dir + one scratch overlay path, exclusively locked for a whole run
# ---------------------------------------------------------------------------------------------
class Slot:
    def __init__(self):
        os.makedirs(os.path.join(CACHE, 'slots'), exist_ok=True)
        self.fd = None
        self.idx = None
        # try each slot without blocking, then block on slot 0
        for i in range(NSLOTS):
            fd = open(os.path.join(CACHE, 'slots', 'slot%d.lock' % i), 'w')
            try:
                fcntl.flock(fd, fcntl.LOCK_EX | fcntl.LOCK_NB)
                self.fd, self.idx = fd, i
                break
            except OSError:
                fd.close()
        if self.fd is None:
            fd = open(os.path.join(CACHE, 'slots', 'slot0.lock'), 'w')
            fcntl.flock(fd, fcntl.LOCK_EX)
            self.fd, self.idx = fd, 0
        self.kani_target = os.path.join(CACHE, 'kani', 'slot%d' % self.idx)
        self.replay_target = os.path.join(CACHE, 'replay', 'slot%d' % self.idx)
        # the scratch path is unique per cache directory (two copies of /verif, e.g. a vp-run snapshot, must not share it)
        import hashlib
        tag = hashlib.sha1(os.path.abspath(CACHE).encode()).hexdigest()[:8]
        self.scratch = os.path.join(SCRATCH_ROOT, 'ska_verif_%s_slot%d' % (tag, self.idx))
        shutil.rmtree(self.scratch, ignore_errors=True)
        os.makedirs(self.scratch)

    def clean_ska_artifacts(self):
        """remove GOTO output of earlier runs so that nothing stale can be read"""
        for d in glob.glob(os.path.join(self.kani_target, 'kani', '*', 'debug', 'build', 'ska')):
            shutil.rmtree(d, ignore_errors=True)
        for d in glob.glob(os.path.join(self.kani_target, 'kani', '*', 'debug', 'build', 'ska-*')):
            shutil.rmtree(d, ignore_errors=True)
        for d in glob.glob(os.path.join(self.kani_target, 'kani', '*', 'debug', '.fingerprint', 'ska-*')):
            shutil.rmtree(d, ignore_errors=True)

    def release(self):
        shutil.rmtree(self.scratch, ignore_errors=True)
        if self.fd:
            fcntl.flock(self.fd, fcntl.LOCK_UN)
            self.fd.close()
            self.fd = None


# ---------------------------------------------------------------------------------------------
# running one process with a memory cap and a timeout
# ---------------------------------------------------------------------------------------------
def run_capped(cmd, cwd, logfile, timeout, mem_gb=None, env=None):
    def pre():
        os.setsid()
        if mem_gb:
            lim = int(mem_gb * (1 << 30))
            resource.setrlimit(resource.RLIMIT_AS, (lim, lim))
    t0 = time.time()
    with open(logfile, 'w') as lf:
        p = subprocess.Popen(cmd, cwd=cwd, stdout=lf, stderr=subprocess.STDOUT, env=env or ENV, preexec_fn=pre)
        try:
            rc = p.wait(timeout=timeout)
            timed_out = False
        except subprocess.TimeoutExpired:
            timed_out = True
            try:
                os.killpg(p.pid, signal.SIGKILL)
            except ProcessLookupError:
                pass
            p.wait()
            rc = -9
    return rc, timed_out, time.time() - t0


# ---------------------------------------------------------------------------------------------
# parsing Kani's regular output
# ---------------------------------------------------------------------------------------------
CHECK_RE = re.compile(r'^Check \d+: (.+)\n\t - Status: (\w+)\n\t - Description: "(.*)"\n\t - Location: (.*)$', re.M)


def parse_kani(text):
    checks = []
    for m in CHECK_RE.finditer(text):
        name, status, desc, loc = m.groups()
        desc = desc.strip('"')
        checks.append({'name': name, 'status': status, 'desc': desc, 'loc': loc})
    res = {'checks': checks}
    m = re.search(r'VERIFICATION:- (\w+)', text)
    res['verdict'] = m.group(1) if m else None
    m = re.search(r'Verification Time: ([\d.]+)s', text)
    res['solver_s'] = float(m.group(1)) if m else None
    m = re.search(r'Runtime decision procedure: ([\d.]+)s', text)
    res['decision_s'] = float(m.group(1)) if m else None
    m = re.search(r'(\d+) variables, (\d+) clauses', text)
    if m:
        res['sat_variables'], res['sat_clauses'] = int(m.group(1)), int(m.group(2))
    res['oom'] = ('Status: ERROR' in text) or ('appears to have run out of memory' in text) or ('std::bad_alloc' in text) or ('Out of memory' in text) or ('memory exhausted' in text.lower())
    res['stubs'] = re.findall(r' - Stub: (.*)', text)
    return res


def classify(ob, parsed):
    """-> dict(status=ok|fail|inconclusive, failures=[...], witnesses=[...], reason=str)"""
    checks = parsed['checks']
    failures, inconcl, witnesses, n_assert = [], [], [], 0
    expected = ob.get('expected_fail', [])
    expected_seen = set()
    for c in checks:
        nm, st, desc = c['name'], c['status'], c['desc']
        is_cover = '.cover.' in nm
        if is_cover:
            if desc.startswith('must-not-reach:'):
                if st == 'SATISFIED':
                    failures.append({'desc': desc, 'loc': c['loc'], 'kind': 'reached'})
                witnesses.append({'desc': desc, 'status': st, 'ok': st != 'SATISFIED'})
            elif desc in ob.get('dead_witnesses', []):
                # witness that is dead code for this configuration by construction (listed in the registry)
                witnesses.append({'desc': desc, 'status': st + ' (not applicable to this configuration)', 'ok': True})
            else:
                witnesses.append({'desc': desc, 'status': st, 'ok': st == 'SATISFIED'})
            continue
        if st == 'SUCCESS':
            if '.assertion.' in nm:
                n_assert += 1
            continue
        if st == 'UNREACHABLE':
            continue
        if st == 'FAILURE':
            if '.unwind.' in nm or 'unwinding assertion' in desc:
                inconcl.append('unwinding bound too small: ' + c['loc'])
            elif 'not currently supported by Kani' in desc or 'unsupported' in nm:
                inconcl.append('construct not supported by Kani reached: ' + desc[:120])
            else:
                exp = [e for e in expected if e in desc or e in c['loc']]
                if exp:
                    expected_seen.update(exp)
                else:
                    failures.append({'desc': desc, 'loc': c['loc'], 'kind': 'assertion' if '.assertion.' in nm else nm.split('.')[-2] if '.' in nm else nm})
        elif st in ('UNDETERMINED', 'ERROR'):
            inconcl.append('checks undetermined (an unwinding assertion failed or CBMC reported an error)')
    for e in expected:
        if e not in expected_seen:
            failures.append({'desc': 'expected refusal not reachable: ' + e, 'loc': ob['harness'], 'kind': 'missing-refusal'})
    # dedupe failures by (desc)
    seen, uniq = set(), []
    for f in failures:
        if f['desc'] not in seen:
            seen.add(f['desc'])
            uniq.append(f)
    failures = uniq
    out = {'failures': failures, 'witnesses': witnesses, 'n_checks': len(checks), 'n_assertions_ok': n_assert}
    if failures:
        out['status'] = 'fail'
    elif inconcl:
        out['status'] = 'inconclusive'
        out['reason'] = '; '.join(sorted(set(inconcl))[:3])
    elif parsed['verdict'] != 'SUCCESSFUL' and not expected:
        out['status'] = 'inconclusive'
        out['reason'] = 'no SUCCESSFUL verdict (verdict=%s, oom=%s)' % (parsed['verdict'], parsed['oom'])
    elif parsed['verdict'] is None:
        out['status'] = 'inconclusive'
        out['reason'] = 'no verdict'
    else:
        out['status'] = 'ok'
    return out


# ---------------------------------------------------------------------------------------------
# known findings
# ---------------------------------------------------------------------------------------------
def load_findings():
    p = os.path.join(VERIF, 'known_findings.json')
    if not os.path.exists(p):
        return []
    return json.load(open(p)).get('findings', [])


def finding_for(findings, prop, ob, failure):
    for f in findings:
        if f.get('status') != 'known':
            continue
        if f['property'] != prop:
            continue
        if f.get('obligation') and not re.fullmatch(f['obligation'], ob['id']):
            continue
        if f['assertion'] in failure['desc']:
            return f
    return None


# ---------------------------------------------------------------------------------------------
# replay
# ---------------------------------------------------------------------------------------------
def extract_playback_tests(text):
    """all unit tests printed by --concrete-playback=print as (check class, description, code); Kani also prints
    tests for SATISFIED cover statements -- those are not counterexamples"""
    out = []
    for m in re.finditer(r'```\n(.*?)```', text, re.S):
        code = m.group(1)
        h = re.search(r'/// Check for `(\w+)`: "?(.*?)"?\s*\n', code)
        out.append((h.group(1) if h else 'assertion', (h.group(2) if h else '').strip('"'), code))
    return out


def extract_playback_test(text, fail_descs=None):
    tests = [t for t in extract_playback_tests(text) if t[0] != 'cover']
    if fail_descs:
        pref = [t for t in tests if any(d and (d in t[1] or t[1] in d) for d in fail_descs)]
        tests = pref + [t for t in tests if t not in pref]
    return tests[0][2] if tests else None


def loc_key(loc):
    """'src/x.rs:12:5 in function f' or '/a/b/x.rs:12:5' -> 'x.rs:12:5'"""
    m = re.search(r'([^/\s]+\.rs:\d+:\d+)', loc)
    return m.group(1) if m else None


def native_replay(slot, ob, caps, test_code, outdir, extra_consts=None, fail_locs=None):
    """Run the concrete playback test natively against the real libraries. -> (reproduced, output)"""
    ov = os.path.join(slot.scratch, 'replay_ov')
    hdir = os.path.join(slot.scratch, 'replay_harness')
    shutil.rmtree(hdir, ignore_errors=True)
    shutil.copytree(os.path.join(VERIF, 'harness'), hdir)
    info = overlay.make_overlay(ov, caps=caps, models='real', harness_dir=hdir, parts=[ob['part']] + ob.get('needs_parts', []), extra_consts=extra_consts)
    part_file = os.path.join(hdir, ob['part'] + '.rs')
    with open(part_file, 'a') as f:
        f.write('\n' + test_code + '\n')
    m = re.search(r'fn (kani_concrete_playback_\w+)', test_code)
    tname = m.group(1)
    logf = os.path.join(outdir, 'native_output.txt')
    cmd = ['cargo', 'kani', 'playback', '-Z', 'concrete-playback', '--', tname]
    env = dict(ENV, CARGO_TARGET_DIR=slot.replay_target, RUST_BACKTRACE='0')
    rc, to, dt = run_capped(cmd, ov, logf, 1500, None, env)
    out = open(logf).read()
    ran = re.search(r'running 1 test', out) is not None
    failed = 'test result: FAILED' in out or re.search(r'test .*%s \.\.\. FAILED' % tname, out) is not None
    passed = re.search(r'test .*%s \.\.\. ok' % tname, out) is not None
    shutil.rmtree(ov, ignore_errors=True)
    shutil.rmtree(hdir, ignore_errors=True)
    if ran and failed:
        if fail_locs:
            native_full = set(re.findall(r'panicked at ([^\s]+\.rs:\d+:\d+)', out))
            native = set(loc_key(x) for x in native_full)
            # a failing check inside the Rust standard library (e.g. Result::unwrap -> unwrap_failed) is reported
            # natively at its #[track_caller] call site in ska's own source
            stdlib_fail = any(l.startswith('stdlib:') for l in fail_locs)
            in_ska_src = any(x.startswith('src/') or '/src/' in x for x in native_full) and not any('verif' in x and 'harness' in x for x in native_full)
            if not (native & set(fail_locs)) and not (stdlib_fail and in_ska_src):
                return False, out + '\n[driver] native panic at %s does not match a failing check location %s\n' % (sorted(native), sorted(fail_locs))
        return True, out
    if ran and passed:
        return False, out
    return None, out  # could not run (compile error etc.)


# ---------------------------------------------------------------------------------------------
# main check routine
# ---------------------------------------------------------------------------------------------
def select(obligations, prop, tier, seed, only=None):
    sel = []
    for ob in obligations:
        if prop not in ob['props']:
            continue
        if only and not any(re.search(o, ob['id']) for o in only):
            continue
        if tier == 'quick' and ob['tier'] != 'quick':
            fam = ob.get('quick_sample')
            if not fam:
                continue
        sel.append(ob)
    if tier == 'quick':
        # families: obligations with quick_sample=(family, n_pick, always) are sampled by seed
        fams = {}
        keep = []
        for ob in sel:
            qs = ob.get('quick_sample')
            if ob['tier'] == 'quick' or not qs:
                keep.append(ob)
            else:
                fams.setdefault(qs['family'], []).append(ob)
        import random
        for fam, members in sorted(fams.items()):
            rnd = random.Random('%s/%d' % (fam, seed))
            n = members[0]['quick_sample']['pick']
            always = [m for m in members if m['quick_sample'].get('always')]
            rest = [m for m in members if not m['quick_sample'].get('always')]
            rnd.shuffle(rest)
            keep.extend(always + rest[:max(0, n - len(always))])
        sel = keep
    return sel


def caps_key(ob):
    c = dict(overlay.DEFAULT_CAPS, **ob.get('caps', {}))
    e = ob.get('consts', {})
    return json.dumps([c, e], sort_keys=True)


def run_property(prop, tier, obligations, meta, seed=0, only=None, jobs=None, keep_logs=False):
    t_start = time.time()
    sel = select(obligations, prop, tier, seed, only)
    if not sel:
        log('no obligations registered for %s' % prop)
        return 2
    findings = load_findings()
    slot = Slot()
    # one log directory per run (two runs of the same property may be in flight: seeded-change runs, vp runs)
    logroot = os.path.join(CACHE, 'logs')
    os.makedirs(logroot, exist_ok=True)
    for d in os.listdir(logroot):
        m = re.fullmatch(re.escape(prop) + r'\.(\d+)', d)
        if m and not os.path.exists('/proc/%s' % m.group(1)):
            shutil.rmtree(os.path.join(logroot, d), ignore_errors=True)
    logdir = os.path.join(logroot, '%s.%d' % (prop, os.getpid()))
    shutil.rmtree(logdir, ignore_errors=True)
    os.makedirs(logdir, exist_ok=True)
    latest = os.path.join(logroot, prop)
    try:
        if os.path.islink(latest) or os.path.exists(latest):
            if os.path.islink(latest):
                os.unlink(latest)
            else:
                shutil.rmtree(latest, ignore_errors=True)
        os.symlink(logdir, latest)
    except OSError:
        pass
    results = {}
    exit_code = 0
    overlay_infos = []
    try:
        groups = {}
        for ob in sel:
            groups.setdefault(caps_key(ob), []).append(ob)
        slot.clean_ska_artifacts()
        njobs = jobs or int(os.environ.get('VERIF_JOBS', '12' if tier == 'thorough' else '12'))
        pending = []
        # the overlays of all groups are compiled first (sequentially, they share the target dir),
        # each group into its own overlay path so GOTO files of one group are not rebuilt by the next
        for gi, (key, obs) in enumerate(sorted(groups.items())):
            caps, consts = json.loads(key)
            ov = os.path.join(slot.scratch, 'ov%d' % gi)
            parts = sorted(set([o['part'] for o in obs] + sum([o.get('needs_parts', []) for o in obs], [])))
            info = overlay.make_overlay(ov, caps=caps, parts=parts, extra_consts=consts)
            info['parts'] = parts
            overlay_infos.append(info)
            clog = os.path.join(logdir, 'codegen_%d.log' % gi)
            rc, to, dt = run_capped(['cargo', 'kani', '--target-dir', slot.kani_target, '-Z', 'stubbing', '--only-codegen'], ov, clog, 1800)
            if rc != 0:
                txt = open(clog).read()
                errs = re.findall(r'^error(?:\[E\d+\])?: .*$', txt, re.M)
                for o in obs:
                    results[o['id']] = {'status': 'inconclusive', 'reason': 'overlay does not compile: ' + '; '.join(errs[:3]), 'wall_s': dt}
                log('INCONCLUSIVE: overlay for %s does not compile (%s) -- see %s' % (prop, '; '.join(errs[:2]), clog))
                continue
            for o in obs:
                pending.append((o, ov, caps, consts))
        # longest first
        pending.sort(key=lambda t: -t[0].get('timeout', 600))

        import threading
        budget = {'free': float(os.environ.get('VERIF_MEM_GB', '44'))}
        cv = threading.Condition()

        def work(item):
            ob, ov, caps, consts = item
            # scheduling uses the expected footprint; the hard per-process cap (mem_gb) is enforced by RLIMIT_AS
            need = min(ob.get('mem_expect_gb', min(ob.get('mem_gb', 10), 5)), float(os.environ.get('VERIF_MEM_GB', '44')))
            with cv:
                while budget['free'] < need:
                    cv.wait()
                budget['free'] -= need
            try:
                return work1(item)
            finally:
                with cv:
                    budget['free'] += need
                    cv.notify_all()

        def work1(item):
            ob, ov, caps, consts = item
            lf = os.path.join(logdir, ob['id'].replace('/', '_') + '.log')
            cmd = ['cargo', 'kani', '--target-dir', slot.kani_target, '-Z', 'stubbing', '--harness', ob['harness'], '--exact']
            cmd += ob.get('kani_args', [])
            mem = ob.get('mem_gb', 10 if tier == 'quick' else 28)
            tmo = ob.get('timeout', 900) * float(os.environ.get('VERIF_TIMEOUT_SCALE', '1'))
            rc, to, dt = run_capped(cmd, ov, lf, tmo, mem)
            text = open(lf, errors='replace').read()
            parsed = parse_kani(text)
            r = {'wall_s': round(dt, 1), 'rc': rc, 'solver_s': parsed.get('solver_s'), 'sat_variables': parsed.get('sat_variables'), 'kani_stubs': parsed.get('stubs')}
            if to:
                r.update(status='inconclusive', reason='timeout after %ds' % tmo)
            elif not parsed['checks'] and parsed['verdict'] is None:
                why = 'out of memory (cap %s GB)' % mem if parsed['oom'] or rc in (-9, 137, 134) else 'no result (rc=%s)' % rc
                errs = re.findall(r'^error(?:\[E\d+\])?: .*$', text, re.M)
                r.update(status='inconclusive', reason=why + (' ' + errs[0] if errs else ''))
            else:
                c = classify(ob, parsed)
                if c['status'] != 'fail' and parsed['oom']:
                    c = dict(c, status='inconclusive', reason='CBMC error / out of memory (cap %s GB)' % mem)
                r.update(c)
            log('  [%s] %-28s %-12s %6.1fs %s' % (prop, ob['id'], r['status'], dt, r.get('reason', '')))
            return ob['id'], r

        with ThreadPoolExecutor(max_workers=njobs) as ex:
            for oid, r in ex.map(work, pending):
                results[oid] = r

        # witnesses: per harness all plain witnesses must be satisfied; 'any:' witnesses per family
        fam_wit = {}
        obmap = {o['id']: o for o in sel}
        for oid, r in results.items():
            if r['status'] != 'ok':
                continue
            bad = []
            for w in r.get('witnesses', []):
                if w['desc'].startswith('any:'):
                    fam = obmap[oid].get('family', oid)
                    fam_wit.setdefault((fam, w['desc']), []).append(w['ok'])
                elif not w['ok']:
                    bad.append(w['desc'])
            if bad:
                r['status'] = 'inconclusive'
                r['reason'] = 'vacuity witness not satisfied: ' + '; '.join(bad[:3])
        for (fam, desc), oks in fam_wit.items():
            if not any(oks):
                for oid, r in results.items():
                    if obmap[oid].get('family', oid) == fam and r['status'] == 'ok':
                        r['status'] = 'inconclusive'
                        r['reason'] = 'vacuity witness not satisfied in any member of family %s: %s' % (fam, desc)

        # failures -> known finding or replay
        violations, known_lines, inconclusive, also_failing = [], [], [], []
        for oid, r in sorted(results.items(), key=lambda kv: (kv[1].get('wall_s') or 0)):
            ob = obmap[oid]
            if r['status'] == 'inconclusive':
                inconclusive.append((oid, r.get('reason', '')))
                continue
            if r['status'] != 'fail':
                continue
            unknown = []
            for f in r['failures']:
                kf = finding_for(findings, prop, ob, f)
                if kf:
                    known_lines.append('KNOWN-FINDING: property=%s %s [%s: %s]' % (prop, kf['what'], oid, f['desc']))
                    f['known'] = kf['id']
                else:
                    unknown.append(f)
            if not unknown:
                r['status'] = 'known-finding'
                continue
            # replay (once a counterexample of this run has been reproduced natively, further failing obligations
            # are reported without their own replay: one reproduced violation decides the exit status)
            if violations:
                also_failing.append((oid, unknown))
                r['status'] = 'fail (not replayed: another counterexample of this run already reproduced)'
                continue
            item = [p for p in pending if p[0]['id'] == oid][0]
            rep = replay_failure(slot, prop, ob, item[1], item[2], item[3], logdir, unknown)
            r['replay'] = rep
            if rep['reproduced'] is True:
                violations.append((oid, rep['path'], unknown))
            else:
                inconclusive.append((oid, 'counterexample did not reproduce natively (%s); failing: %s' % (rep.get('why', ''), '; '.join(u['desc'] for u in unknown)[:200])))
                r['status'] = 'inconclusive'
                r['reason'] = 'counterexample did not reproduce natively'
        for l in sorted(set(known_lines)):
            log(l)
        for oid, path, unknown in violations:
            log('VIOLATION property=%s replay=%s' % (prop, path))
            log('  obligation %s: %s' % (oid, '; '.join(u['desc'] for u in unknown)))
        for oid, unknown in also_failing:
            log('  also failing (not replayed): %s: %s' % (oid, '; '.join(u['desc'] for u in unknown)[:200]))
        for oid, why in inconclusive:
            log('INCONCLUSIVE: %s %s: %s' % (prop, oid, why))
        if violations:
            exit_code = 1
        elif inconclusive:
            exit_code = 2
        # partial runs (--only) and runs against another tree (VERIF_REPO: seeded-change experiments) must not
        # overwrite the evidence of the registered check
        partial = bool(only) or bool(os.environ.get('VERIF_REPO'))
        write_evidence(prop, tier, seed, sel, results, overlay_infos, meta, time.time() - t_start, len(violations), partial)
        if exit_code == 0:
            log('%s: held on everything explored (%d obligations, tier %s, %.0fs)' % (prop, len(sel), tier, time.time() - t_start))
    finally:
        if not keep_logs and exit_code == 0:
            pass
        slot.release()
    return exit_code


def replay_failure(slot, prop, ob, ov, caps, consts, logdir, unknown=None):
    """ask Kani for the concrete playback test of a failing harness and run it natively"""
    outdir = os.path.join(os.environ.get('VERIF_REPLAY_DIR', os.path.join(VERIF, 'replays')), prop, ob['id'].replace('/', '_'))
    shutil.rmtree(outdir, ignore_errors=True)
    os.makedirs(outdir)
    lf = os.path.join(logdir, ob['id'].replace('/', '_') + '.playback.log')
    cmd = ['cargo', 'kani', '--target-dir', slot.kani_target, '-Z', 'stubbing', '--harness', ob['harness'], '--exact', '-Z', 'concrete-playback', '--concrete-playback=print']
    cmd += ob.get('kani_args', [])
    # trace extraction needs noticeably more memory than the verdict alone
    rc, to, dt = run_capped(cmd, ov, lf, ob.get('timeout', 900) * 2, max(2 * ob.get('mem_gb', 16), 40))
    text = open(lf, errors='replace').read()
    test = extract_playback_test(text, [u['desc'] for u in (unknown or [])])
    meta = {'property': prop, 'obligation': ob['id'], 'harness': ob['harness'], 'part': ob['part'], 'caps': caps, 'consts': consts, 'needs_parts': ob.get('needs_parts', [])}
    if not test:
        json.dump(dict(meta, error='no concrete playback test produced'), open(os.path.join(outdir, 'meta.json'), 'w'), indent=1)
        return {'reproduced': None, 'why': 'no concrete playback test produced', 'path': outdir}
    open(os.path.join(outdir, 'test.rs'), 'w').write(test)
    fail_locs = sorted(set(filter(None, [('stdlib:' + (loc_key(u['loc']) or '')) if '/library/' in u['loc'] else loc_key(u['loc']) for u in (unknown or [])])))
    meta['fail_locs'] = fail_locs
    reproduced, out = native_replay(slot, ob, caps, test, outdir, consts, fail_locs)
    msg = re.findall(r"panicked at .*?:\n(.*)", out)
    meta.update(reproduced=reproduced, native_panic=msg[:3])
    json.dump(meta, open(os.path.join(outdir, 'meta.json'), 'w'), indent=1)
    why = 'native test passed' if reproduced is False else ('native test could not be built/run' if reproduced is None else '')
    return {'reproduced': reproduced, 'path': outdir, 'why': why, 'native_panic': msg[:3]}


def replay_path(path):
    """./check --replay <path>: re-run a stored counterexample against /repo's current tree"""
    meta = json.load(open(os.path.join(path, 'meta.json')))
    test = open(os.path.join(path, 'test.rs')).read()
    slot = Slot()
    try:
        ob = {'part': meta['part'], 'needs_parts': meta.get('needs_parts', []), 'harness': meta['harness'], 'id': meta['obligation']}
        outdir = tempfile.mkdtemp(prefix='replay_', dir=slot.scratch)
        reproduced, out = native_replay(slot, ob, meta['caps'], test, outdir, meta.get('consts'), meta.get('fail_locs'))
        tail = '\n'.join(l[:240] for l in out.splitlines()[-25:] if 'rustdoc' not in l[:400])
        log(tail)
        if reproduced:
            log('VIOLATION property=%s replay=%s' % (meta['property'], path))
            return 1
        if reproduced is None:
            log('INCONCLUSIVE: replay could not be built/run')
            return 2
        log('replay passes on the current tree')
        return 0
    finally:
        slot.release()


# ---------------------------------------------------------------------------------------------
# evidence
# ---------------------------------------------------------------------------------------------
def write_evidence(prop, tier, seed, sel, results, overlay_infos, meta, wall, nviol, partial=False):
    evdir = os.path.join(CACHE, 'evidence_partial') if partial else os.path.join(VERIF, 'evidence')
    os.makedirs(evdir, exist_ok=True)
    samples, nontrivial, queries, solver = [], 0, 0, 0.0
    funcs = set()
    for ob in sel:
        r = results.get(ob['id'], {'status': 'not-run'})
        wit = r.get('witnesses', [])
        nt = r.get('status') in ('ok', 'known-finding', 'fail') and r.get('n_assertions_ok', 0) + len(r.get('failures', [])) >= 1 and all(w['ok'] or w['desc'].startswith('any:') for w in wit)
        if nt:
            nontrivial += 1
        queries += r.get('n_checks', 0)
        solver += r.get('solver_s') or 0.0
        funcs.update(ob.get('functions', []))
        samples.append({
            'obligation': ob['id'], 'harness': ob['harness'], 'status': r.get('status'),
            'functions_encoded': ob.get('functions', []), 'instantiation': ob.get('inst', ''),
            'bounds': ob.get('bounds', ''), 'symbolic': ob.get('sym', ''), 'oracle': ob.get('oracle', ''),
            'model_caps': dict(overlay.DEFAULT_CAPS, **ob.get('caps', {})), 'models': ob.get('models', []),
            'stubs': ob.get('stubs', []) + (r.get('kani_stubs') or []),
            'cbmc_properties_checked': r.get('n_checks'), 'assertions_ok': r.get('n_assertions_ok'),
            'failed': [f['desc'] for f in r.get('failures', [])],
            'witnesses': [{'desc': w['desc'], 'status': w['status']} for w in wit],
            'solver_s': r.get('solver_s'), 'wall_s': r.get('wall_s'), 'sat_variables': r.get('sat_variables'),
            'reason': r.get('reason'),
        })
    pm = meta.get(prop, {})
    ev = {
        'property_id': prop, 'tier': tier, 'seed': seed, 'level': 'model_checking',
        'coverage': {
            'evaluations': len([s for s in samples if s['status'] not in (None, 'not-run')]),
            'distinct_nontrivial': nontrivial,
            'rule': 'one evaluation = one Kani/CBMC solver session over one harness (all inputs within the harness bounds at once); '
                    'non-trivial = distinct harness with >= 1 property assertion decided and every kani::cover! vacuity witness SATISFIED',
            'samples': samples,
            'queries': queries, 'solver_time_s': round(solver, 1),
            'functions_encoded': sorted(funcs),
            'bounds': pm.get('bounds', ''), 'outside_claim': pm.get('outside', []),
            'exhaustive': bool(pm.get('exhaustive', False)),
            'encoding': 'regenerated from /repo working tree on this run: overlay copy + cargo kani (Kani 0.68 -> CBMC 6.11 -> CaDiCaL), unwinding assertions on',
            'overlays': overlay_infos,
        },
        'assumptions': pm.get('assumptions', []),
        'wall_s': round(wall, 1),
        'violations': nviol,
    }
    json.dump(ev, open(os.path.join(evdir, prop + '.json'), 'w'), indent=1)
