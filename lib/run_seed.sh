#!/bin/bash
# usage: lib/run_seed.sh <seed-id> <property> [extra check args]
# Runs a check against a scratch worktree of /repo with the seeded change applied (VERIF_REPO points the
# overlay builder at it), then removes the worktree. Equivalent to `git -C /repo apply; ./check; git checkout`,
# but does not disturb other checks that read /repo at the same time.
ID=$1; PROP=$2; shift 2
WT=/tmp/seedrun_${ID}_$$
cd /verif
git -C /repo worktree add -q --detach $WT HEAD || exit 3
[ -f $WT/Cargo.lock ] || cp /repo/Cargo.lock $WT/
git -C $WT apply /verif/seeded/$ID/patch.diff || { echo "seed=$ID cannot apply"; git -C /repo worktree remove --force $WT; exit 3; }
VERIF_REPLAY_DIR=/verif/seeded/$ID/replays VERIF_REPO=$WT ./check $PROP --tier quick "$@" > /verif/seeded/$ID/check_$PROP.log 2>&1; RC=$?
git -C /repo worktree remove --force $WT
echo "seed=$ID check=$PROP rc=$RC $(grep -E '^VIOLATION' /verif/seeded/$ID/check_$PROP.log | head -2 | tr '\n' ' ')"
grep -E "^INCONCLUSIVE|^  obligation" /verif/seeded/$ID/check_$PROP.log | head -4
