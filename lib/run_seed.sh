#!/bin/bash
# usage: lib/run_seed.sh <seed-id> <property> [extra check args]   -- applies the seed to /repo, runs the check, undoes it
ID=$1; PROP=$2; shift 2
cd /verif
git -C /repo apply /verif/seeded/$ID/patch.diff || { echo "cannot apply"; exit 3; }
./check $PROP --tier quick "$@" > /verif/seeded/$ID/check_$PROP.log 2>&1; RC=$?
git -C /repo checkout -- .
echo "seed=$ID check=$PROP rc=$RC"; grep -E "VIOLATION|INCONCLUSIVE|KNOWN|held" /verif/seeded/$ID/check_$PROP.log | head -5
