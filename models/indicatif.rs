//! Model of the indicatif subset used by ska: progress bars are identity adaptors.
pub trait ParallelProgressIterator {}
pub trait ProgressIterator: Sized + Iterator { fn progress(self) -> Self { self } }
impl<I: Iterator> ProgressIterator for I {}
