//! Model of the subset of hashbrown used by ska: insertion-ordered association list.
use std::borrow::Borrow;

pub use super::bounds::MCAP;
#[derive(Debug, Clone)]
pub struct HashMap<K, V> { slots: Box<[Option<(K, V)>; MCAP]>, n: usize }
impl<K, V> Default for HashMap<K, V> { fn default() -> Self { Self { slots: Box::new(std::array::from_fn(|_| None)), n: 0 } } }

pub enum Entry<'a, K, V> {
    Occupied(&'a mut HashMap<K, V>, usize),
    Vacant(&'a mut HashMap<K, V>, K),
}
impl<'a, K: Eq, V> Entry<'a, K, V> {
    pub fn and_modify<F: FnOnce(&mut V)>(self, f: F) -> Self {
        match self {
            Entry::Occupied(m, i) => { f(&mut m.slots[i].as_mut().unwrap().1); Entry::Occupied(m, i) }
            v => v,
        }
    }
    pub fn or_insert(self, default: V) -> &'a mut V { self.or_insert_with(|| default) }
    pub fn or_insert_with<F: FnOnce() -> V>(self, f: F) -> &'a mut V {
        match self {
            Entry::Occupied(m, i) => &mut m.slots[i].as_mut().unwrap().1,
            Entry::Vacant(m, k) => { let i = m.push_new(k, f()); &mut m.slots[i].as_mut().unwrap().1 }
        }
    }
    pub fn or_default(self) -> &'a mut V where V: Default { self.or_insert_with(V::default) }
}
pub struct MapIter<'a, K, V> { m: &'a HashMap<K, V>, i: usize }
impl<'a, K, V> Iterator for MapIter<'a, K, V> {
    type Item = (&'a K, &'a V);
    fn next(&mut self) -> Option<Self::Item> {
        while self.i < MCAP {
            let j = self.i; self.i += 1;
            if j < self.m.n { if let Some((k, v)) = &self.m.slots[j] { return Some((k, v)); } }
        }
        None
    }
}
pub struct MapIterMut<'a, K, V> { it: std::slice::IterMut<'a, Option<(K, V)>> }
impl<'a, K, V> Iterator for MapIterMut<'a, K, V> {
    type Item = (&'a K, &'a mut V);
    fn next(&mut self) -> Option<Self::Item> {
        loop {
            match self.it.next() {
                Some(Some((k, v))) => return Some((&*k, v)),
                Some(None) => continue,
                None => return None,
            }
        }
    }
}
pub struct Values<'a, K, V>(MapIter<'a, K, V>);
impl<'a, K, V> Iterator for Values<'a, K, V> { type Item = &'a V; fn next(&mut self) -> Option<&'a V> { self.0.next().map(|(_, v)| v) } }

impl<K: Eq, V> HashMap<K, V> {
    pub fn new() -> Self { Self::default() }
    pub fn with_capacity(_n: usize) -> Self { Self::default() }
    pub fn reserve(&mut self, _n: usize) {}
    pub fn len(&self) -> usize { self.n }
    pub fn is_empty(&self) -> bool { self.n == 0 }
    fn push_new(&mut self, k: K, v: V) -> usize {
        assert!(self.n < MCAP, "model HashMap capacity");
        // concrete slot indices under symbolic guards (see models/ndarray.rs push_row)
        let at = self.n;
        let mut kv = Some((k, v));
        let mut i = 0;
        while i < MCAP { if i == at { self.slots[i] = kv.take(); } i += 1; }
        self.n += 1;
        at
    }
    fn find<Q: ?Sized + Eq>(&self, k: &Q) -> Option<usize> where K: Borrow<Q> {
        let mut i = 0;
        while i < MCAP {
            if i < self.n { if let Some((x, _)) = &self.slots[i] { if x.borrow() == k { return Some(i); } } }
            i += 1;
        }
        None
    }
    pub fn insert(&mut self, k: K, v: V) -> Option<V> {
        match self.find(&k) {
            Some(i) => Some(std::mem::replace(&mut self.slots[i].as_mut().unwrap().1, v)),
            None => { self.push_new(k, v); None }
        }
    }
    pub fn get<Q: ?Sized + Eq>(&self, k: &Q) -> Option<&V> where K: Borrow<Q> { match self.find(k) { Some(i) => Some(&self.slots[i].as_ref().unwrap().1), None => None } }
    pub fn get_mut<Q: ?Sized + Eq>(&mut self, k: &Q) -> Option<&mut V> where K: Borrow<Q> { match self.find(k) { Some(i) => Some(&mut self.slots[i].as_mut().unwrap().1), None => None } }
    pub fn contains_key<Q: ?Sized + Eq>(&self, k: &Q) -> bool where K: Borrow<Q> { self.find(k).is_some() }
    pub fn entry(&mut self, k: K) -> Entry<'_, K, V> { match self.find(&k) { Some(i) => Entry::Occupied(self, i), None => Entry::Vacant(self, k) } }
    pub fn iter(&self) -> MapIter<'_, K, V> { MapIter { m: self, i: 0 } }
    pub fn iter_mut(&mut self) -> MapIterMut<'_, K, V> { MapIterMut { it: self.slots.iter_mut() } }
    pub fn values(&self) -> Values<'_, K, V> { Values(self.iter()) }
}
impl<'a, K: Eq, V> IntoIterator for &'a HashMap<K, V> { type Item = (&'a K, &'a V); type IntoIter = MapIter<'a, K, V>; fn into_iter(self) -> Self::IntoIter { self.iter() } }
impl<'a, K: Eq, V> IntoIterator for &'a mut HashMap<K, V> { type Item = (&'a K, &'a mut V); type IntoIter = MapIterMut<'a, K, V>; fn into_iter(self) -> Self::IntoIter { self.iter_mut() } }
impl<K: Eq, V, Q: ?Sized + Eq> std::ops::Index<&Q> for HashMap<K, V> where K: Borrow<Q> {
    type Output = V;
    fn index(&self, k: &Q) -> &V { self.get(k).expect("no entry found for key") }
}

pub use super::bounds::SCAP;
#[derive(Debug, Clone)]
pub struct HashSet<K> { slots: Box<[Option<K>; SCAP]>, n: usize }
impl<K> Default for HashSet<K> { fn default() -> Self { Self { slots: Box::new(std::array::from_fn(|_| None)), n: 0 } } }

pub mod hash_set {
    pub enum Entry<'a, K> {
        Occupied(OccupiedEntry<'a, K>),
        Vacant(VacantEntry<'a, K>),
    }
    pub struct OccupiedEntry<'a, K>(pub(super) &'a mut super::HashSet<K>);
    pub struct VacantEntry<'a, K>(pub(super) &'a mut super::HashSet<K>, pub(super) K);
    impl<'a, K: Eq> VacantEntry<'a, K> {
        pub fn insert(self) { self.0.push_new(self.1); }
    }
}

pub struct SetIter<'a, K> { s: &'a HashSet<K>, i: usize }
impl<'a, K> Iterator for SetIter<'a, K> {
    type Item = &'a K;
    fn next(&mut self) -> Option<&'a K> {
        while self.i < SCAP {
            let j = self.i; self.i += 1;
            if j < self.s.n { if let Some(k) = &self.s.slots[j] { return Some(k); } }
        }
        None
    }
}
pub struct SetIntoIter<K> { s: HashSet<K>, i: usize }
impl<K> Iterator for SetIntoIter<K> {
    type Item = K;
    fn next(&mut self) -> Option<K> {
        while self.i < SCAP {
            let j = self.i; self.i += 1;
            if j < self.s.n { if let Some(k) = self.s.slots[j].take() { return Some(k); } }
        }
        None
    }
}

impl<K: Eq> HashSet<K> {
    pub fn new() -> Self { Self::default() }
    pub fn len(&self) -> usize { self.n }
    pub fn is_empty(&self) -> bool { self.n == 0 }
    fn push_new(&mut self, k: K) {
        assert!(self.n < SCAP, "model HashSet capacity");
        let at = self.n;
        let mut kk = Some(k);
        let mut i = 0;
        while i < SCAP { if i == at { self.slots[i] = kk.take(); } i += 1; }
        self.n += 1;
    }
    fn find<Q: ?Sized + Eq>(&self, k: &Q) -> Option<usize> where K: Borrow<Q> {
        let mut i = 0;
        while i < SCAP {
            if i < self.n { if let Some(x) = &self.slots[i] { if x.borrow() == k { return Some(i); } } }
            i += 1;
        }
        None
    }
    pub fn contains<Q: ?Sized + Eq>(&self, k: &Q) -> bool where K: Borrow<Q> { self.find(k).is_some() }
    pub fn insert(&mut self, k: K) -> bool {
        if self.find(&k).is_some() { false } else { self.push_new(k); true }
    }
    pub fn remove<Q: ?Sized + Eq>(&mut self, k: &Q) -> bool where K: Borrow<Q> {
        match self.find(k) {
            Some(i) => {
                // swap-remove keeps the set dense
                let last = self.n - 1;
                self.slots.swap(i, last);
                self.slots[last] = None;
                self.n = last;
                true
            }
            None => false,
        }
    }
    pub fn entry(&mut self, k: K) -> hash_set::Entry<'_, K> {
        if self.find(&k).is_some() { hash_set::Entry::Occupied(hash_set::OccupiedEntry(self)) }
        else { hash_set::Entry::Vacant(hash_set::VacantEntry(self, k)) }
    }
    pub fn iter(&self) -> SetIter<'_, K> { SetIter { s: self, i: 0 } }
}
impl<K: Eq> FromIterator<K> for HashSet<K> {
    fn from_iter<I: IntoIterator<Item = K>>(it: I) -> Self {
        let mut s = Self::new();
        for k in it { s.insert(k); }
        s
    }
}
impl<K: Eq> IntoIterator for HashSet<K> {
    type Item = K;
    type IntoIter = SetIntoIter<K>;
    fn into_iter(self) -> Self::IntoIter { SetIntoIter { s: self, i: 0 } }
}
impl<'a, K: Eq> IntoIterator for &'a HashSet<K> {
    type Item = &'a K;
    type IntoIter = SetIter<'a, K>;
    fn into_iter(self) -> Self::IntoIter { self.iter() }
}
