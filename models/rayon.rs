//! Sequential model of the rayon (and indicatif progress) subset used by ska.
//!
//! Contract kept: the results of the *sequential* schedule of `join`, `par_iter_mut`,
//! `into_par_iter().enumerate().map().collect_into_vec()`; `build_global()` returns `Err` the
//! second time it is called in a process (rayon's documented contract).
//! Deliberately different: no threads. Nothing about interleavings is claimed anywhere.

// one static struct with a non-zero magic field (see harness/support.rs: plain zero-initialised statics were
// observed to alias with promoted constants under Kani 0.68)
struct Pool { magic: u64, built: bool }
static mut POOL: Pool = Pool { magic: 0x9001_c0de_77aa_1234, built: false };
/// Harness-side: reset / inspect the "process-global pool" flag
pub fn model_pool_reset() { unsafe { POOL.built = false; } }
pub fn model_pool_built() -> bool { unsafe { POOL.magic == 0x9001_c0de_77aa_1234 && POOL.built } }

#[derive(Debug)]
pub struct ThreadPoolBuildError;
impl std::fmt::Display for ThreadPoolBuildError { fn fmt(&self, f: &mut std::fmt::Formatter) -> std::fmt::Result { f.write_str("The global thread pool has already been initialized.") } }
impl std::error::Error for ThreadPoolBuildError {}
pub struct ThreadPoolBuilder { n: usize }
impl ThreadPoolBuilder {
    pub fn new() -> Self { Self { n: 0 } }
    pub fn num_threads(mut self, n: usize) -> Self { self.n = n; self }
    pub fn build_global(self) -> Result<(), ThreadPoolBuildError> {
        unsafe { if POOL.built { Err(ThreadPoolBuildError) } else { POOL.built = true; Ok(()) } }
    }
}

pub fn join<A, B, RA, RB>(a: A, b: B) -> (RA, RB) where A: FnOnce() -> RA, B: FnOnce() -> RB {
    let ra = a();
    let rb = b();
    (ra, rb)
}

/// Sequential stand-in for a parallel iterator
pub struct Seq<I>(pub I);
impl<I: Iterator> Seq<I> {
    pub fn progress_count(self, _n: u64) -> Self { self }
    pub fn enumerate(self) -> Seq<std::iter::Enumerate<I>> { Seq(self.0.enumerate()) }
    pub fn map<B, F: FnMut(I::Item) -> B>(self, f: F) -> Seq<std::iter::Map<I, F>> { Seq(self.0.map(f)) }
    pub fn for_each<F: FnMut(I::Item)>(self, f: F) { self.0.for_each(f) }
    pub fn collect_into_vec(self, v: &mut Vec<I::Item>) { v.clear(); for x in self.0 { v.push(x); } }
}

pub mod iter {
    /// marker so that `use rayon::iter::ParallelIterator;` keeps compiling
    pub trait ParallelIterator {}
    pub trait IntoParallelIterator: Sized { type SeqIter: Iterator; fn into_par_iter(self) -> super::Seq<Self::SeqIter>; }
    impl<I: Iterator> IntoParallelIterator for I { type SeqIter = I; fn into_par_iter(self) -> super::Seq<I> { super::Seq(self) } }
    pub trait IntoParallelRefMutIterator<'a> { type Item: 'a; fn par_iter_mut(&'a mut self) -> super::Seq<std::slice::IterMut<'a, Self::Item>>; }
    impl<'a, T: 'a> IntoParallelRefMutIterator<'a> for Vec<T> { type Item = T; fn par_iter_mut(&'a mut self) -> super::Seq<std::slice::IterMut<'a, T>> { super::Seq(self.iter_mut()) } }
}
pub mod prelude {
    pub use super::iter::{IntoParallelIterator, IntoParallelRefMutIterator, ParallelIterator};
}
