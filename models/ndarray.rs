//! Model of the subset of ndarray used by ska: fixed-capacity row-major 2-D array.
//!
//! Storage is RCAP rows of a CONSTANT pitch CCAP, so that every index computation multiplies by a
//! compile-time constant only (a symbolic `row * ncols` costs a 64-bit multiplier per access in SAT and
//! dominated the cost of every table harness). Strides of views are the two-valued `Stride` enum.
//! Contract kept: value semantics of zeros/from_shape_vec/push_row/push_column/outer_iter/axis_iter/
//! index_axis/slice/t/raw_dim/assign/mapv_inplace/map/sum_axis/as_slice/to_vec/nrows/ncols/Index incl. the
//! ShapeError cases. Deliberately different: capacity is fixed (assert on overflow); serde is unimplemented.
#[derive(Clone, Copy, Debug)]
pub struct Axis(pub usize);
#[derive(Clone, Copy, Debug, PartialEq, Eq)]
pub struct Dim<I>(pub I);
pub type Ix1 = Dim<[usize; 1]>;
pub type Ix2 = Dim<[usize; 2]>;

#[derive(Debug)]
pub struct ShapeError;
impl std::fmt::Display for ShapeError { fn fmt(&self, f: &mut std::fmt::Formatter) -> std::fmt::Result { f.write_str("ShapeError") } }
impl std::error::Error for ShapeError {}

pub trait IntoShape2 { fn shape2(self) -> (usize, usize); }
impl IntoShape2 for (usize, usize) { fn shape2(self) -> (usize, usize) { self } }
impl IntoShape2 for Ix2 { fn shape2(self) -> (usize, usize) { (self.0[0], self.0[1]) } }

pub use super::bounds::{CCAP, RCAP};
/// total capacity
pub const CAP: usize = RCAP * CCAP;

#[derive(Clone, Copy, Debug, PartialEq, Eq)]
pub enum Stride { One, Pitch }
impl Stride {
    #[inline(always)]
    fn mul(self, i: usize) -> usize { match self { Stride::One => i, Stride::Pitch => i * CCAP } }
    /// largest number of elements a view with this stride can have: iterators stop there on a CONCRETE
    /// counter, so that loops over a symbolic number of rows/columns unroll to the capacity, not to the unwind bound
    #[inline(always)]
    fn cap(self) -> usize { match self { Stride::One => CCAP, Stride::Pitch => RCAP } }
}

#[derive(Clone, Debug)]
pub struct Array2<T> { data: [T; CAP], r: usize, c: usize }
impl<T: PartialEq> PartialEq for Array2<T> {
    fn eq(&self, o: &Self) -> bool {
        if self.r != o.r || self.c != o.c { return false; }
        let mut i = 0;
        while i < RCAP { if i < self.r { let mut j = 0; while j < CCAP { if j < self.c && self.data[i * CCAP + j] != o.data[i * CCAP + j] { return false; } j += 1; } } i += 1; }
        true
    }
}

/// 1-D strided view; `D` only keeps the real signature `ArrayView<u8, Dim<[usize; 1]>>` compiling.
pub struct ArrayView<'a, T, D = Ix1> { base: &'a [T], start: usize, len: usize, stride: Stride, cap: usize, _d: std::marker::PhantomData<D> }
impl<'a, T, D> Clone for ArrayView<'a, T, D> { fn clone(&self) -> Self { *self } }
impl<'a, T, D> Copy for ArrayView<'a, T, D> {}
pub type ArrayView1<'a, T> = ArrayView<'a, T, Ix1>;

pub struct ViewIter<'a, T> { base: &'a [T], pos: usize, left: usize, stride: Stride, n: usize, cap: usize }
impl<'a, T> Iterator for ViewIter<'a, T> {
    type Item = &'a T;
    fn next(&mut self) -> Option<&'a T> {
        if self.n >= self.cap || self.left == 0 { None } else { let x = &self.base[self.pos]; self.pos += self.stride.mul(1); self.left -= 1; self.n += 1; Some(x) }
    }
}
impl<'a, T> ArrayView<'a, T, Ix1> {
    fn mk(base: &'a [T], start: usize, len: usize, stride: Stride) -> Self { Self { base, start, len, stride, cap: stride.cap(), _d: std::marker::PhantomData } }
    fn mk_vec(base: &'a [T]) -> Self { Self { base, start: 0, len: base.len(), stride: Stride::One, cap: usize::MAX, _d: std::marker::PhantomData } }
    pub fn iter(&self) -> ViewIter<'a, T> { ViewIter { base: self.base, pos: self.start, left: self.len, stride: self.stride, n: 0, cap: self.cap } }
    pub fn len(&self) -> usize { self.len }
    pub fn to_vec(&self) -> Vec<T> where T: Clone { let mut v = Vec::with_capacity(self.len); for x in self.iter() { v.push(x.clone()); } v }
    pub fn as_slice(&self) -> Option<&'a [T]> { if self.stride == Stride::One || self.len <= 1 { Some(&self.base[self.start..self.start + self.len]) } else { None } }
}
impl<'a, T> std::ops::Index<usize> for ArrayView<'a, T, Ix1> { type Output = T; fn index(&self, i: usize) -> &T { assert!(i < self.len); &self.base[self.start + self.stride.mul(i)] } }
impl<'a, T> IntoIterator for ArrayView<'a, T, Ix1> { type Item = &'a T; type IntoIter = ViewIter<'a, T>; fn into_iter(self) -> ViewIter<'a, T> { self.iter() } }
impl<'a, 'b, T> IntoIterator for &'b ArrayView<'a, T, Ix1> { type Item = &'a T; type IntoIter = ViewIter<'a, T>; fn into_iter(self) -> ViewIter<'a, T> { self.iter() } }
impl<'a, T> From<&'a Vec<T>> for ArrayView<'a, T, Ix1> { fn from(v: &'a Vec<T>) -> Self { Self::mk_vec(v.as_slice()) } }
impl<'a, T> From<&'a [T]> for ArrayView<'a, T, Ix1> { fn from(v: &'a [T]) -> Self { Self::mk_vec(v) } }

/// 2-D view (possibly transposed) of an Array2: element (i, j) is at rs.mul(i) + cs.mul(j)
pub struct ArrayView2<'a, T> { base: &'a [T], r: usize, c: usize, rs: Stride, cs: Stride }
impl<'a, T> Clone for ArrayView2<'a, T> { fn clone(&self) -> Self { *self } }
impl<'a, T> Copy for ArrayView2<'a, T> {}
pub struct AxisIter<'a, T> { v: ArrayView2<'a, T>, axis: usize, i: usize }
impl<'a, T> Iterator for AxisIter<'a, T> {
    type Item = ArrayView1<'a, T>;
    fn next(&mut self) -> Option<Self::Item> {
        let (n, cap) = if self.axis == 0 { (self.v.r, self.v.rs.cap()) } else { (self.v.c, self.v.cs.cap()) };
        if self.i >= cap || self.i >= n { return None; }
        let out = if self.axis == 0 { ArrayView::mk(self.v.base, self.v.rs.mul(self.i), self.v.c, self.v.cs) }
                  else { ArrayView::mk(self.v.base, self.v.cs.mul(self.i), self.v.r, self.v.rs) };
        self.i += 1;
        Some(out)
    }
}
impl<'a, T> ArrayView2<'a, T> {
    pub fn outer_iter(&self) -> AxisIter<'a, T> { AxisIter { v: *self, axis: 0, i: 0 } }
    pub fn raw_dim(&self) -> Ix2 { Dim([self.r, self.c]) }
    fn at(&self, i: usize, j: usize) -> &'a T { &self.base[self.rs.mul(i) + self.cs.mul(j)] }
}

pub struct ColSel(pub usize);
#[macro_export]
macro_rules! verif_nd_s { (.., $i:expr) => { $crate::verif_models::ndarray::ColSel($i) }; }
pub use verif_nd_s as s;

impl<T: Copy + Default> Array2<T> {
    pub fn zeros<S: IntoShape2>(shape: S) -> Self where T: Clone + Default {
        let (r, c) = shape.shape2();
        assert!(r <= RCAP && c <= CCAP, "model Array2 capacity");
        Self { data: [T::default(); CAP], r, c }
    }
    pub fn from_shape_vec(shape: (usize, usize), data: Vec<T>) -> Result<Self, ShapeError> {
        if shape.0 * shape.1 != data.len() { return Err(ShapeError); }
        assert!(shape.0 <= RCAP && shape.1 <= CCAP, "model Array2 capacity");
        let mut d = [T::default(); CAP];
        let mut i = 0;
        while i < RCAP { if i < shape.0 { let mut j = 0; while j < CCAP { if j < shape.1 { d[i * CCAP + j] = data[i * shape.1 + j]; } j += 1; } } i += 1; }
        Ok(Self { data: d, r: shape.0, c: shape.1 })
    }
    pub fn nrows(&self) -> usize { self.r }
    pub fn ncols(&self) -> usize { self.c }
    pub fn raw_dim(&self) -> Ix2 { Dim([self.r, self.c]) }
    pub fn view(&self) -> ArrayView2<'_, T> { ArrayView2 { base: &self.data, r: self.r, c: self.c, rs: Stride::Pitch, cs: Stride::One } }
    pub fn t(&self) -> ArrayView2<'_, T> { ArrayView2 { base: &self.data, r: self.c, c: self.r, rs: Stride::One, cs: Stride::Pitch } }
    pub fn outer_iter(&self) -> AxisIter<'_, T> { self.view().outer_iter() }
    pub fn axis_iter(&self, a: Axis) -> AxisIter<'_, T> { AxisIter { v: self.view(), axis: a.0, i: 0 } }
    pub fn index_axis(&self, a: Axis, i: usize) -> ArrayView1<'_, T> {
        if a.0 == 0 { assert!(i < self.r); ArrayView::mk(&self.data, i * CCAP, self.c, Stride::One) }
        else { assert!(i < self.c); ArrayView::mk(&self.data, i, self.r, Stride::Pitch) }
    }
    pub fn slice(&self, s: ColSel) -> ArrayView1<'_, T> { self.index_axis(Axis(1), s.0) }
    pub fn push_row(&mut self, row: ArrayView1<'_, T>) -> Result<(), ShapeError> where T: Clone {
        if row.len() != self.c { return Err(ShapeError); }
        assert!(self.r < RCAP, "model Array2 capacity (rows)");
        // written with CONCRETE indices under symbolic guards: a write at the symbolic index r * CCAP + j would
        // make CBMC treat the whole storage as an array with symbolic updates
        let mut i = 0;
        while i < RCAP {
            if i == self.r { let mut j = 0; while j < CCAP { if j < self.c { self.data[i * CCAP + j] = row[j]; } j += 1; } }
            i += 1;
        }
        self.r += 1;
        Ok(())
    }
    pub fn push_column(&mut self, col: ArrayView1<'_, T>) -> Result<(), ShapeError> where T: Clone {
        if col.len() != self.r { return Err(ShapeError); }
        assert!(self.c < CCAP, "model Array2 capacity (columns)");
        let mut j = 0;
        while j < CCAP {
            if j == self.c { let mut i = 0; while i < RCAP { if i < self.r { self.data[i * CCAP + j] = col[i]; } i += 1; } }
            j += 1;
        }
        self.c += 1;
        Ok(())
    }
    pub fn mapv_inplace<F: FnMut(T) -> T>(&mut self, mut f: F) {
        let mut i = 0;
        while i < RCAP { if i < self.r { let mut j = 0; while j < CCAP { if j < self.c { self.data[i * CCAP + j] = f(self.data[i * CCAP + j]); } j += 1; } } i += 1; }
    }
    pub fn map<B: Copy + Default, F: FnMut(&T) -> B>(&self, mut f: F) -> Array2<B> {
        let mut d = [B::default(); CAP];
        let mut i = 0;
        while i < RCAP { if i < self.r { let mut j = 0; while j < CCAP { if j < self.c { d[i * CCAP + j] = f(&self.data[i * CCAP + j]); } j += 1; } } i += 1; }
        Array2 { data: d, r: self.r, c: self.c }
    }
    pub fn assign(&mut self, v: &ArrayView2<'_, T>) where T: Clone {
        assert!(self.r == v.r && self.c == v.c);
        let mut i = 0;
        while i < RCAP { if i < self.r { let mut j = 0; while j < CCAP { if j < self.c { self.data[i * CCAP + j] = v.at(i, j).clone(); } j += 1; } } i += 1; }
    }
    pub fn sum_axis(&self, a: Axis) -> Array1<T> where T: Clone + Default + std::ops::Add<Output = T> {
        assert!(a.0 == 0);
        let mut out = vec![T::default(); self.c];
        let mut i = 0;
        while i < RCAP { if i < self.r { let mut j = 0; while j < CCAP { if j < self.c { out[j] = out[j].clone() + self.data[i * CCAP + j].clone(); } j += 1; } } i += 1; }
        Array1(out)
    }
}
impl<T: Copy + Default> std::ops::Index<[usize; 2]> for Array2<T> { type Output = T; fn index(&self, ix: [usize; 2]) -> &T { assert!(ix[0] < self.r && ix[1] < self.c); &self.data[ix[0] * CCAP + ix[1]] } }
impl<T: Copy + Default> std::ops::IndexMut<[usize; 2]> for Array2<T> { fn index_mut(&mut self, ix: [usize; 2]) -> &mut T { assert!(ix[0] < self.r && ix[1] < self.c); &mut self.data[ix[0] * CCAP + ix[1]] } }
pub struct Array1<T>(Vec<T>);
impl<T: Clone> Array1<T> { pub fn to_vec(&self) -> Vec<T> { self.0.clone() } }

impl<T: Copy + Default> serde::Serialize for Array2<T> { fn serialize<S: serde::Serializer>(&self, _s: S) -> Result<S::Ok, S::Error> { unimplemented!("model ndarray: serialisation is outside the verified scope") } }
impl<'de, T: Copy + Default> serde::Deserialize<'de> for Array2<T> { fn deserialize<D: serde::Deserializer<'de>>(_d: D) -> Result<Self, D::Error> { unimplemented!("model ndarray: serialisation is outside the verified scope") } }

pub mod parallel { pub mod prelude { pub use crate::verif_models::rayon::prelude::*; } }
unsafe impl<'a, T: Sync, D> Send for ArrayView<'a, T, D> {}
unsafe impl<'a, T: Sync, D> Sync for ArrayView<'a, T, D> {}

impl<T: Copy + Default> Array2<T> {
    /// `select(Axis(a), indices)`: the sub-array of the listed rows (a = 0) or columns (a = 1), in the listed order
    pub fn select(&self, a: Axis, idx: &[usize]) -> Array2<T> {
        let mut out = if a.0 == 0 { Array2::zeros((0, self.c)) } else { Array2::zeros((self.r, 0)) };
        for &i in idx {
            if a.0 == 0 { out.push_row(self.index_axis(Axis(0), i)).unwrap(); } else { out.push_column(self.index_axis(Axis(1), i)).unwrap(); }
        }
        out
    }
}
