//! Model of the subset of ndarray used by ska: row-major Vec-backed 2-D array.
#[derive(Clone, Copy, Debug)]
pub struct Axis(pub usize);
#[derive(Clone, Copy, Debug, PartialEq, Eq)]
pub struct Dim<I>(pub I);
pub type Ix1 = Dim<[usize; 1]>;
pub type Ix2 = Dim<[usize; 2]>;

#[derive(Debug)]
pub struct ShapeError;
impl std::fmt::Display for ShapeError { fn fmt(&self, f: &mut std::fmt::Formatter) -> std::fmt::Result { f.write_str("ShapeError") } }
impl std::error::Error for ShapeError {}

pub trait IntoShape2 { fn shape2(self) -> (usize, usize); }
impl IntoShape2 for (usize, usize) { fn shape2(self) -> (usize, usize) { self } }
impl IntoShape2 for Ix2 { fn shape2(self) -> (usize, usize) { (self.0[0], self.0[1]) } }

pub use super::bounds::ACAP as CAP;
#[derive(Clone, Debug, PartialEq, Eq)]
pub struct Array2<T> { data: [T; CAP], r: usize, c: usize }

/// 1-D strided view; `D` only keeps the real signature `ArrayView<u8, Dim<[usize; 1]>>` compiling.
pub struct ArrayView<'a, T, D = Ix1> { base: &'a [T], start: usize, len: usize, stride: usize, _d: std::marker::PhantomData<D> }
impl<'a, T, D> Clone for ArrayView<'a, T, D> { fn clone(&self) -> Self { *self } }
impl<'a, T, D> Copy for ArrayView<'a, T, D> {}
pub type ArrayView1<'a, T> = ArrayView<'a, T, Ix1>;

pub struct ViewIter<'a, T> { base: &'a [T], pos: usize, left: usize, stride: usize }
impl<'a, T> Iterator for ViewIter<'a, T> {
    type Item = &'a T;
    fn next(&mut self) -> Option<&'a T> {
        if self.left == 0 { None } else { let x = &self.base[self.pos]; self.pos += self.stride; self.left -= 1; Some(x) }
    }
}
impl<'a, T> ArrayView<'a, T, Ix1> {
    fn mk(base: &'a [T], start: usize, len: usize, stride: usize) -> Self { Self { base, start, len, stride, _d: std::marker::PhantomData } }
    pub fn iter(&self) -> ViewIter<'a, T> { ViewIter { base: self.base, pos: self.start, left: self.len, stride: self.stride } }
    pub fn len(&self) -> usize { self.len }
    pub fn to_vec(&self) -> Vec<T> where T: Clone { self.iter().cloned().collect() }
    pub fn as_slice(&self) -> Option<&'a [T]> { if self.stride == 1 || self.len <= 1 { Some(&self.base[self.start..self.start + self.len]) } else { None } }
}
impl<'a, T> std::ops::Index<usize> for ArrayView<'a, T, Ix1> { type Output = T; fn index(&self, i: usize) -> &T { assert!(i < self.len); &self.base[self.start + i * self.stride] } }
impl<'a, T> IntoIterator for ArrayView<'a, T, Ix1> { type Item = &'a T; type IntoIter = ViewIter<'a, T>; fn into_iter(self) -> ViewIter<'a, T> { self.iter() } }
impl<'a, 'b, T> IntoIterator for &'b ArrayView<'a, T, Ix1> { type Item = &'a T; type IntoIter = ViewIter<'a, T>; fn into_iter(self) -> ViewIter<'a, T> { self.iter() } }
impl<'a, T> From<&'a Vec<T>> for ArrayView<'a, T, Ix1> { fn from(v: &'a Vec<T>) -> Self { Self::mk(v.as_slice(), 0, v.len(), 1) } }
impl<'a, T> From<&'a [T]> for ArrayView<'a, T, Ix1> { fn from(v: &'a [T]) -> Self { Self::mk(v, 0, v.len(), 1) } }

/// 2-D view (possibly transposed) of an Array2
pub struct ArrayView2<'a, T> { base: &'a [T], r: usize, c: usize, rs: usize, cs: usize }
impl<'a, T> Clone for ArrayView2<'a, T> { fn clone(&self) -> Self { *self } }
impl<'a, T> Copy for ArrayView2<'a, T> {}
pub struct AxisIter<'a, T> { v: ArrayView2<'a, T>, axis: usize, i: usize }
impl<'a, T> Iterator for AxisIter<'a, T> {
    type Item = ArrayView1<'a, T>;
    fn next(&mut self) -> Option<Self::Item> {
        let n = if self.axis == 0 { self.v.r } else { self.v.c };
        if self.i >= n { return None; }
        let out = if self.axis == 0 { ArrayView::mk(self.v.base, self.i * self.v.rs, self.v.c, self.v.cs) }
                  else { ArrayView::mk(self.v.base, self.i * self.v.cs, self.v.r, self.v.rs) };
        self.i += 1;
        Some(out)
    }
}
impl<'a, T> ArrayView2<'a, T> {
    pub fn outer_iter(&self) -> AxisIter<'a, T> { AxisIter { v: *self, axis: 0, i: 0 } }
    pub fn raw_dim(&self) -> Ix2 { Dim([self.r, self.c]) }
    fn at(&self, i: usize, j: usize) -> &'a T { &self.base[i * self.rs + j * self.cs] }
}

pub struct ColSel(pub usize);
#[macro_export]
macro_rules! verif_nd_s { (.., $i:expr) => { $crate::verif_models::ndarray::ColSel($i) }; }
pub use verif_nd_s as s;

impl<T: Copy + Default> Array2<T> {
    pub fn zeros<S: IntoShape2>(shape: S) -> Self where T: Clone + Default {
        let (r, c) = shape.shape2();
        assert!(r * c <= CAP);
        Self { data: [T::default(); CAP], r, c }
    }
    pub fn from_shape_vec(shape: (usize, usize), data: Vec<T>) -> Result<Self, ShapeError> {
        if shape.0 * shape.1 != data.len() || data.len() > CAP { return Err(ShapeError); }
        let mut d = [T::default(); CAP];
        for i in 0..CAP { if i < data.len() { d[i] = data[i]; } }
        Ok(Self { data: d, r: shape.0, c: shape.1 })
    }
    pub fn nrows(&self) -> usize { self.r }
    pub fn ncols(&self) -> usize { self.c }
    pub fn raw_dim(&self) -> Ix2 { Dim([self.r, self.c]) }
    pub fn view(&self) -> ArrayView2<'_, T> { ArrayView2 { base: &self.data, r: self.r, c: self.c, rs: self.c, cs: 1 } }
    pub fn t(&self) -> ArrayView2<'_, T> { ArrayView2 { base: &self.data, r: self.c, c: self.r, rs: 1, cs: self.c } }
    pub fn outer_iter(&self) -> AxisIter<'_, T> { self.view().outer_iter() }
    pub fn axis_iter(&self, a: Axis) -> AxisIter<'_, T> { AxisIter { v: self.view(), axis: a.0, i: 0 } }
    pub fn index_axis(&self, a: Axis, i: usize) -> ArrayView1<'_, T> {
        if a.0 == 0 { assert!(i < self.r); ArrayView::mk(&self.data, i * self.c, self.c, 1) }
        else { assert!(i < self.c); ArrayView::mk(&self.data, i, self.r, self.c) }
    }
    pub fn slice(&self, s: ColSel) -> ArrayView1<'_, T> { self.index_axis(Axis(1), s.0) }
    pub fn push_row(&mut self, row: ArrayView1<'_, T>) -> Result<(), ShapeError> where T: Clone {
        if row.len() != self.c { return Err(ShapeError); }
        assert!((self.r + 1) * self.c <= CAP);
        let base = self.r * self.c;
        for j in 0..CAP { if j < self.c { self.data[base + j] = row[j]; } }
        self.r += 1;
        Ok(())
    }
    pub fn push_column(&mut self, col: ArrayView1<'_, T>) -> Result<(), ShapeError> where T: Clone {
        if col.len() != self.r { return Err(ShapeError); }
        assert!(self.r * (self.c + 1) <= CAP);
        let mut nd = [T::default(); CAP];
        let mut n = 0;
        for i in 0..CAP { if i < self.r {
            for j in 0..CAP { if j < self.c { nd[n] = self.data[i * self.c + j]; n += 1; } }
            nd[n] = col[i]; n += 1;
        } }
        self.data = nd;
        self.c += 1;
        Ok(())
    }
    pub fn mapv_inplace<F: FnMut(T) -> T>(&mut self, mut f: F) { let n = self.r * self.c; for i in 0..CAP { if i < n { self.data[i] = f(self.data[i]); } } }
    pub fn map<B: Copy + Default, F: FnMut(&T) -> B>(&self, mut f: F) -> Array2<B> { let mut d = [B::default(); CAP]; let n = self.r * self.c; for i in 0..CAP { if i < n { d[i] = f(&self.data[i]); } } Array2 { data: d, r: self.r, c: self.c } }
    pub fn assign(&mut self, v: &ArrayView2<'_, T>) where T: Clone {
        assert!(self.r == v.r && self.c == v.c);
        for i in 0..self.r { for j in 0..self.c { self.data[i * self.c + j] = v.at(i, j).clone(); } }
    }
    pub fn sum_axis(&self, a: Axis) -> Array1<T> where T: Clone + Default + std::ops::Add<Output = T> {
        assert!(a.0 == 0);
        let mut out = vec![T::default(); self.c];
        for i in 0..self.r { for j in 0..self.c { out[j] = out[j].clone() + self.data[i * self.c + j].clone(); } }
        Array1(out)
    }
    pub fn iter(&self) -> std::slice::Iter<'_, T> { self.data[..self.r * self.c].iter() }
}
impl<T: Copy + Default> std::ops::Index<[usize; 2]> for Array2<T> { type Output = T; fn index(&self, ix: [usize; 2]) -> &T { assert!(ix[0] < self.r && ix[1] < self.c); &self.data[ix[0] * self.c + ix[1]] } }
impl<T: Copy + Default> std::ops::IndexMut<[usize; 2]> for Array2<T> { fn index_mut(&mut self, ix: [usize; 2]) -> &mut T { assert!(ix[0] < self.r && ix[1] < self.c); &mut self.data[ix[0] * self.c + ix[1]] } }
pub struct Array1<T>(Vec<T>);
impl<T: Clone> Array1<T> { pub fn to_vec(&self) -> Vec<T> { self.0.clone() } }

impl<T: Copy + Default> serde::Serialize for Array2<T> { fn serialize<S: serde::Serializer>(&self, _s: S) -> Result<S::Ok, S::Error> { unimplemented!("model ndarray: serialisation is outside the verified scope") } }
impl<'de, T: Copy + Default> serde::Deserialize<'de> for Array2<T> { fn deserialize<D: serde::Deserializer<'de>>(_d: D) -> Result<Self, D::Error> { unimplemented!("model ndarray: serialisation is outside the verified scope") } }

pub mod parallel { pub mod prelude { pub use crate::verif_models::rayon::prelude::*; } }
unsafe impl<'a, T: Sync, D> Send for ArrayView<'a, T, D> {}
unsafe impl<'a, T: Sync, D> Sync for ArrayView<'a, T, D> {}
