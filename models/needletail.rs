//! Model of the subset of needletail used by ska: an in-memory "file system" of parsed records.
use std::borrow::Cow;

pub mod errors {
    #[derive(Debug)]
    pub struct ParseError;
    impl std::fmt::Display for ParseError { fn fmt(&self, f: &mut std::fmt::Formatter) -> std::fmt::Result { f.write_str("ParseError") } }
    impl std::error::Error for ParseError {}
}
pub mod parser {
    #[derive(Clone, Copy, Debug, PartialEq, Eq)]
    pub enum Format { Fasta, Fastq }
    #[derive(Clone, Copy, Debug)]
    pub enum LineEnding { Unix, Windows }
    pub fn write_fasta(id: &[u8], seq: &[u8], w: &mut dyn std::io::Write, _le: LineEnding) -> Result<(), super::errors::ParseError> {
        w.write_all(b">").map_err(|_| super::errors::ParseError)?;
        w.write_all(id).map_err(|_| super::errors::ParseError)?;
        w.write_all(b"\n").map_err(|_| super::errors::ParseError)?;
        w.write_all(seq).map_err(|_| super::errors::ParseError)?;
        w.write_all(b"\n").map_err(|_| super::errors::ParseError)?;
        Ok(())
    }
}

#[derive(Clone, Debug)]
pub struct ModelRecord { pub id: &'static [u8], pub seq: Vec<u8>, pub qual: Option<Vec<u8>> }
#[derive(Clone, Debug)]
pub struct ModelFile { pub path: &'static str, pub records: Vec<ModelRecord> }

struct Vfs { magic: u64, files: Vec<ModelFile> }
static mut VFS: Vfs = Vfs { magic: 0x0f11_e5f5_beef_0001, files: Vec::new() };
/// Harness-side: register an in-memory file
pub fn vfs_set(files: Vec<ModelFile>) { unsafe { VFS.files = files; } }
/// path under which the harness names a registered file when calling ska (the replay shim maps it to a real temporary file)
pub fn vfs_path(name: &str) -> String { name.to_string() }

pub struct SequenceRecord<'a> { rec: &'a ModelRecord }
impl<'a> SequenceRecord<'a> {
    pub fn seq(&self) -> Cow<'a, [u8]> { Cow::Borrowed(&self.rec.seq) }
    pub fn num_bases(&self) -> usize { self.rec.seq.len() }
    pub fn qual(&self) -> Option<&'a [u8]> { self.rec.qual.as_deref() }
    pub fn id(&self) -> &'a [u8] { self.rec.id }
    pub fn format(&self) -> parser::Format { if self.rec.qual.is_some() { parser::Format::Fastq } else { parser::Format::Fasta } }
}
pub trait FastxReader { fn next(&mut self) -> Option<Result<SequenceRecord<'_>, errors::ParseError>>; }
struct ModelReader { file: &'static ModelFile, pos: usize }
impl FastxReader for ModelReader {
    fn next(&mut self) -> Option<Result<SequenceRecord<'_>, errors::ParseError>> {
        if self.pos < self.file.records.len() { let r = &self.file.records[self.pos]; self.pos += 1; Some(Ok(SequenceRecord { rec: r })) } else { None }
    }
}
pub fn parse_fastx_file<P: AsRef<std::path::Path>>(path: P) -> Result<Box<dyn FastxReader>, errors::ParseError> {
    let p = path.as_ref();
    #[allow(static_mut_refs)]
    let files: &'static Vec<ModelFile> = unsafe { &*std::ptr::addr_of!(VFS.files) };
    for f in files.iter() {
        if std::path::Path::new(f.path) == p { return Ok(Box::new(ModelReader { file: f, pos: 0 })); }
    }
    Err(errors::ParseError)
}
