"""Per-property text that goes into the evidence (bounds, what is outside the claim, assumptions)."""
META = {
    'C15': {
        'bounds': 'complete finite domains: 1024 cells of IUPAC, 256 cells of RC_IUPAC, 256 bytes for is_ambiguous and base_to_prob',
        'exhaustive': True,
        'outside': ['bytes that are not IUPAC codes in RC_IUPAC and base_to_prob (the property does not say what they map to)'],
        'assumptions': ['Kani/CBMC model of rustc MIR semantics', 'independent 4-bit-set specification of the IUPAC alphabet written in the harness'],
    },
    'C01': {
        'bounds': 'window enumeration: k in {5,7} (quick) + 9 and u128 (thorough), records <= k+3 symbols over {ACGTNacgtn}; packing/rolling: all odd k; accumulation: <= 4 observations; tables <= 2x3',
        'outside': ['parsing of FASTA bytes (wrapping, gzip)', 'IUPAC letters other than N in the input', 'the text printed by ska nk (Display/Debug, decode_kmer)', 'CLI parsing', 'k-dependence of window control flow beyond the k listed (argued, not solved: k only enters idx+k comparisons)'],
        'assumptions': ['Kani/CBMC model of rustc MIR semantics', 'library models in /verif/models meet the documented contracts of hashbrown/ndarray/needletail'],
    },
    'C06': {
        'bounds': 'row logic: 1 row x 3 samples (quick: 16 of the 64 flag configurations chosen by VERIF_SEED; thorough: all 64, and 1 x 4); row alignment: 2 rows x 3 samples for 8 flag combinations; threshold arithmetic: <= 4 samples',
        'outside': ['cli.rs value parsing', 'tables beyond 2 x 4 (row logic is per row; alignment is a per-row copy)', 'lower-case symbols in the stored table (never stored)', 'rows without any base (never stored)'],
        'assumptions': ['Kani/CBMC model of rustc MIR semantics', 'models of ndarray::Array2 and hashbrown::HashSet in /verif/models meet the documented contracts', 'stored rows contain at least one base and counts equal the number of non-gap symbols (what build/merge/delete store)'],
    },
    'C04': {
        'bounds': 'AlnWriter: one step / finalise from every state satisfying the invariant, contig layouts of total length 12-17 at h=2 and h=3 (k=5, 7); mapping: <= 3 reference k-mers x 2 samples; reference indexing (RefSka::new): one contig of 5 bases (= k) and of 6 symbols with N (quick), 6 and 7-with-N (thorough), k=5',
        'outside': ['the repeat mask coordinates computed by RefSka::new (--repeat-mask): harnesses with every base symbolic did not finish in 2 h and a reduced one (concrete arms, symbolic middle bases, contigs 5|1|5) was stopped after 45 min without a verdict, so the part of the property about repeat masking rests on C04.fin only (the writer masks exactly the coordinates it is given) and the defect the property anchors there is NOT decided', 'FASTA text of the output', 'rayon schedule of pseudoalignment (sequential model)', 'references longer than the bounds', 'k > 7 for the writer (its code depends on k only through h)', 'generic_modes::map beyond the calls listed'],
        'assumptions': ['Kani/CBMC model of rustc MIR semantics', 'the AlnWriter representation invariant of DESIGN appendix B (checked inductive: init + step; its adequacy is cross-checked by C04.hist without the invariant)', 'centres arrive in reference order and are valid (delivered by RefSka::new/map: C01.win, C04.map)', 'library models in /verif/models'],
    },
    'C02': {
        'bounds': 'strand symmetry and case independence: all odd k (u64 quick; u128 thorough), one window; column permutation: 2 samples x 2 keys (3 x 3 thorough)',
        'outside': ['line re-wrapping and gzip (needletail/flate2 I/O: not encodable)', 'record permutation and record-level reverse complement follow by composition (window bijection + order-independent accumulation C01.acc); the composition step is an argument, not a solver result'],
        'assumptions': ['Kani/CBMC model of rustc MIR semantics', 'hashbrown/ndarray models in /verif/models'],
    },
    'C03': {
        'level_text': 'Bounded model checking of the kernels the end-to-end statement is composed of: per-sample dictionaries -> sample-by-k-mer table (all 16 presence patterns of 2 samples x 2 k-mers), the default align filter path (no-const site filter and the min-freq threshold arithmetic) and the FASTA writer. Build itself is C01/C02. The composition (planted SNPs -> exactly one column each) is argued in DESIGN.md section 3, not solved.',
        'bounds': 'table construction: 2 samples x 2 k-mers, the 16 presence patterns as separate obligations (quick: 3 by VERIF_SEED); FASTA writer: <= 2 x 3; default align filter path: C06.row no-const and C06.thr',
        'outside': ['the end-to-end statement (ancestor sequences, planted SNPs) beyond the kernels listed: build = C01/C02, table = C03.new, filter = C06, writer = C03.fasta; the composition is argued in DESIGN.md, only the kernels are solver-checked', 'more than 3 samples'],
        'assumptions': ['Kani/CBMC model of rustc MIR semantics', 'hashbrown/ndarray/needletail::write_fasta models in /verif/models'],
    },
    'C05': {
        'level_text': 'Bounded model checking of the decidable kernels ONLY: the (contig, offset) iterator that places VCF records, the reference-byte to REF-base mapping over all 256 bytes, and (shared with C04) that the reference is stored upper-case. write_vcf itself (genotype numbering, ALT list, "." for gaps, header and sample order) cannot be encoded (noodles-vcf formatting, to_string on symbolic values, rayon) and is NOT decided by this check; a seeded change in its genotype index was, as expected, not detected. A harness for write_vcf against a recording noodles_vcf model was built and exhausts 24 GB even for 1 sample x 1 position (kept in /verif/attic/c05_vcf, not registered).',
        'bounds': 'coordinate iterator: 3 contigs of length 1..=4 (4 x 1..=6 thorough); REF mapping: all 256 bytes',
        'outside': ['write_vcf itself (rayon pseudo-alignment, genotype strings via to_string, noodles-vcf formatting): allele numbering, "." for "-", header and sample order are NOT decided by this check', 'empty contigs'],
        'assumptions': ['Kani/CBMC model of rustc MIR semantics', 'every contig is non-empty'],
    },
    'C07': {
        'bounds': 'extend: 1+2 and 2+1 samples over a 2-key universe, all 16 presence patterns (quick: 6 by VERIF_SEED); round trip: 2 x 3; refusal: k and strand mismatch',
        'outside': ['generic_modes::merge itself (file loading, argument order of the inputs, save_skf): a wrapper harness with a load provider exhausted 16 GB and is not registered; "no output file is written" on refusal holds because save_skf follows the panicking call: read, not solver-checked', '128-bit files as files (the dictionary code is width-generic)', 'more than 3 samples / 2 keys'],
        'assumptions': ['Kani/CBMC model of rustc MIR semantics', 'hashbrown/ndarray models in /verif/models (iteration order = insertion order)'],
    },
    'C08': {
        'bounds': '2 k-mers x 3 samples; all 6 non-empty proper subsets (quick: 2), names in either order; refusals: absent name, all names, no name',
        'outside': ['reading names one per line from a file (get_input_list: File/BufReader, not encodable) -- the >= 2 columns defect named by the property lives there and is NOT detected by this technique', 'duplicate names on the command line'],
        'assumptions': ['Kani/CBMC model of rustc MIR semantics', 'hashbrown/ndarray models', 'MergeSkaArray::save replaced by a call counter (environment stub)'],
    },
    'C10': {
        'level_text': 'Bounded model checking that the only state carried between operations besides k, strand mode, names, k-mers and bases -- the stored per-k-mer count -- is ignored by its readers (filter, delete_samples) and recomputed by the operations that save (delete, weed, merge round trip, filter); sequences of operations are covered by that argument, not explored.',
        'bounds': 'readers ignore stored counts: 1 k-mer x 3 samples, arbitrary stored count, 4 flag combinations; operations (delete, weed, merge round trip, recount) on 2 x 3 tables: shared with C06.cnt, C07.rt, C08, C13',
        'outside': ['operation sequences longer than one step are covered by the argument "the only carried state besides k/strand/names/k-mers/bases is variant_count, and its only reader ignores it"; save/reload (C09) is not encodable'],
        'assumptions': ['Kani/CBMC model of rustc MIR semantics', 'filter() is the only reader of variant_count (established by reading the code, re-checked by grep in the driver is NOT done)'],
    },
    'C11': {
        'bounds': 'merge tree of build_and_merge: 3 samples (threads 1, 4) and 10 samples (threads 1, 2: serial loop and one split), the recursive split called directly at depth 2 with a non-zero offset on 4 of 6 samples, the join step (merge) for all presence patterns of a 2-key universe; pool initialisation: build from sequence files followed by pseudoalignment for threads in {1,2}',
        'outside': ['every statement about interleavings, schedules and run-to-run nondeterminism: Kani does not model threads; rayon is replaced by its sequential schedule', 'hash-seed dependent iteration order (the hashbrown model iterates in insertion order)', 'ska lo (DashMap/Mutex code)', 'schedule independence of the real parallel code rests on fork-join over disjoint data (Rust aliasing guarantees), not on a result of this check'],
        'assumptions': ['Kani/CBMC model of rustc MIR semantics', 'sequential rayon model; build_global() returns Err the second time it is called in a process (rayon documentation)', 'SkaDict::new replaced by a dictionary provider'],
        'level_text': 'Bounded model checking of the thread-count dependent control flow (merge tree arithmetic and joins, global pool initialisation) under a SEQUENTIAL model of rayon. This is deliberately narrow: nothing about schedules is claimed.',
    },
    'C12': {
        'bounds': 'quality threshold: all (quality, min_qual) pairs; windows under the three rules: k=5, reads <= 8; read hash: k <= 7 every window (quick), all k on 3-position slices; counting filter: k=5, 3 sightings',
        'outside': ['the < 0.1% collision rate (a statistical statement)', 'two-file glue of add_file_kmers for reads', 'quality bytes < 33 (invalid FASTQ)'],
        'assumptions': ['Kani/CBMC model of rustc MIR semantics', 'hashbrown model', 'Bloom buffer of 4 words built directly (KmerFilter::init not executed)'],
    },
    'C13': {
        'bounds': '2 k-mers x 2 samples, weed list <= 2 values of a 3-value universe, both directions; wrapper: 2 x 3 / 1 x 3',
        'outside': ['the weed k-mer set as a function of seqs.fa (= RefSka::new k-mer list, decided for one contig -- including a contig of exactly k bases and one that starts with N -- by C04.case) composed with weed', 'weeding a second time changes nothing (the two-call harness exhausts 16 GB; idempotence follows from C13.weed: the result contains no weed k-mer)', 'tables beyond 2 x 3'],
        'assumptions': ['Kani/CBMC model of rustc MIR semantics', 'hashbrown/ndarray models', 'MergeSkaArray::save replaced by a call counter (environment stub)'],
    },
    'C14': {
        'bounds': 'pair kernel: 4 k-mers; all pairs: 2 k-mers x 3 samples and the empty table (0 k-mers x 3 samples); wrapper: 1 k-mer x 2..3 samples, min_freq in {0, 0.5, 1} with --allow-ambiguous (21 configurations); without it (ambiguity filter on) only 2 samples at min_freq 0 (the other configurations exhaust 40 GB)',
        'outside': ['text of the output ({:.2}/{:.5} formatting)', 'the progress bar', 'more than 3 samples', 'ambiguity codes in the pair kernel beyond base_to_prob (C15.prob)', 'thread count (sequential rayon model)'],
        'assumptions': ['Kani/CBMC model of rustc MIR semantics', 'CBMC IEEE-754 semantics for the f64 arithmetic', 'ndarray/hashbrown/rayon(sequential) models', 'MergeSkaArray::distance replaced by a recorder in the wrapper obligations'],
    },
    'C16': {
        'bounds': 'u64: all odd k in 5..=31; u128: all odd k in 5..=63; windows of k+2 bases for rolling; see per-obligation bounds',
        'outside': ['String-producing decoders decode_kmer / skalo_decode_kmer unless listed as decided', 'hash_val (ahash)'],
        'assumptions': ['Kani/CBMC model of rustc MIR semantics'],
    },
}

NOT_APPLICABLE = {
    'C09': 'persistence lives in File + snappy + CBOR/serde and in main\'s try-u64-then-u128 dispatch; none of it can be executed symbolically by Kani/CBMC (unsupported I/O; compressor and deserialiser explode on symbolic bytes)',
    'C17': 'ska lo SNP calling is a whole-program graph traversal over DashMap/Mutex/rayon/BitSet/String ending in files; the smallest meaningful instance is orders of magnitude beyond what CBMC can bit-blast, and no leaf kernel decides the property',
    'C18': 'same pipeline as C17 plus string-based indel extraction and file output; not encodable within reach',
    'C19': 'requires snappy framing, CRC32C and the CBOR visitor over a buffer in which every byte is symbolic, behind a File; enumerating flip positions concretely would be a different technique',
    'C20': 'counting and histogram are inseparable from file loops and the BFGS fit; likelihood/gradient are ln/exp/lgamma compositions that CBMC only over-approximates; the lone decidable kernel (find_cutoff loop) does not decide the property',
}
