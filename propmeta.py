"""Per-property text that goes into the evidence (bounds, what is outside the claim, assumptions)."""
META = {
    'C15': {
        'bounds': 'complete finite domains: 1024 cells of IUPAC, 256 cells of RC_IUPAC, 256 bytes for is_ambiguous and base_to_prob',
        'exhaustive': True,
        'outside': ['bytes that are not IUPAC codes in RC_IUPAC and base_to_prob (the property does not say what they map to)'],
        'assumptions': ['Kani/CBMC model of rustc MIR semantics', 'independent 4-bit-set specification of the IUPAC alphabet written in the harness'],
    },
    'C01': {
        'bounds': 'window enumeration: k in {5,7} (quick) + 9 and u128 (thorough), records <= k+3 symbols over {ACGTNacgtn}; packing/rolling: all odd k; accumulation: <= 4 observations; tables <= 2x3',
        'outside': ['parsing of FASTA bytes (wrapping, gzip)', 'IUPAC letters other than N in the input', 'the text printed by ska nk (Display/Debug, decode_kmer)', 'CLI parsing', 'k-dependence of window control flow beyond the k listed (argued, not solved: k only enters idx+k comparisons)'],
        'assumptions': ['Kani/CBMC model of rustc MIR semantics', 'library models in /verif/models meet the documented contracts of hashbrown/ndarray/needletail'],
    },
    'C06': {
        'bounds': 'row logic: 1 row x 3 samples (quick: 16 of the 64 flag configurations chosen by VERIF_SEED; thorough: all 64, and 1 x 4); row alignment: 2 rows x 3 samples for 8 flag combinations; threshold arithmetic: <= 4 samples',
        'outside': ['cli.rs value parsing', 'tables beyond 2 x 4 (row logic is per row; alignment is a per-row copy)', 'lower-case symbols in the stored table (never stored)', 'rows without any base (never stored)'],
        'assumptions': ['Kani/CBMC model of rustc MIR semantics', 'models of ndarray::Array2 and hashbrown::HashSet in /verif/models meet the documented contracts', 'stored rows contain at least one base and counts equal the number of non-gap symbols (what build/merge/delete store)'],
    },
    'C04': {
        'bounds': 'AlnWriter: one step / finalise from every state satisfying the invariant, contig layouts of total length 12-17 at h=2 and h=3 (k=5, 7); mapping and reference indexing: <= 3 reference k-mers, k=5, references <= 12 bases',
        'outside': ['FASTA text of the output', 'rayon schedule of pseudoalignment (sequential model)', 'references longer than the bounds', 'k > 7 for the writer (its code depends on k only through h)', 'generic_modes::map beyond the calls listed'],
        'assumptions': ['Kani/CBMC model of rustc MIR semantics', 'the AlnWriter representation invariant of DESIGN appendix B (checked inductive: init + step; its adequacy is cross-checked by C04.hist without the invariant)', 'centres arrive in reference order and are valid (delivered by RefSka::new/map: C01.win, C04.map)', 'library models in /verif/models'],
    },
    'C16': {
        'bounds': 'u64: all odd k in 5..=31; u128: all odd k in 5..=63; windows of k+2 bases for rolling; see per-obligation bounds',
        'outside': ['String-producing decoders decode_kmer / skalo_decode_kmer unless listed as decided', 'hash_val (ahash)'],
        'assumptions': ['Kani/CBMC model of rustc MIR semantics'],
    },
}

NOT_APPLICABLE = {
    'C09': 'persistence lives in File + snappy + CBOR/serde and in main\'s try-u64-then-u128 dispatch; none of it can be executed symbolically by Kani/CBMC (unsupported I/O; compressor and deserialiser explode on symbolic bytes)',
    'C17': 'ska lo SNP calling is a whole-program graph traversal over DashMap/Mutex/rayon/BitSet/String ending in files; the smallest meaningful instance is orders of magnitude beyond what CBMC can bit-blast, and no leaf kernel decides the property',
    'C18': 'same pipeline as C17 plus string-based indel extraction and file output; not encodable within reach',
    'C19': 'requires snappy framing, CRC32C and the CBOR visitor over a buffer in which every byte is symbolic, behind a File; enumerating flip positions concretely would be a different technique',
    'C20': 'counting and histogram are inseparable from file loops and the BFGS fit; likelihood/gradient are ln/exp/lgamma compositions that CBMC only over-approximates; the lone decidable kernel (find_cutoff loop) does not decide the property',
}
