//! Replay shim: the real noodles_vcf. `recorded()` parses the VCF text that the real writer produced into the
//! structure the model's recorder keeps, so the same harness assertions run natively against the real output.
pub use ::noodles_vcf::*;
pub const MAXREC: usize = super::bounds::RCAP;
pub const MAXS: usize = super::bounds::CCAP;
#[derive(Clone, Copy)]
pub struct Rec { pub chrom: [u8; 2], pub chrom_len: usize, pub pos: usize, pub refb: u8, pub alts: [u8; MAXS], pub n_alt: usize, pub gts: [i8; MAXS], pub n_gt: usize }
pub fn recorder_reset() {}
pub fn recorded(text: &[u8]) -> Vec<Rec> {
    let t = String::from_utf8_lossy(text).to_string();
    let mut v = Vec::new();
    for line in t.lines() {
        if line.starts_with('#') || line.is_empty() { continue; }
        let f: Vec<&str> = line.split('\t').collect();
        let mut r = Rec { chrom: [0; 2], chrom_len: f[0].len(), pos: f[1].parse().unwrap(), refb: if f[3].len() == 1 { f[3].as_bytes()[0] } else { b'?' }, alts: [0; MAXS], n_alt: 0, gts: [0; MAXS], n_gt: 0 };
        for (i, b) in f[0].bytes().take(2).enumerate() { r.chrom[i] = b; }
        if f[4] != "." { for (i, a) in f[4].split(',').enumerate() { if i < MAXS { r.alts[i] = if a.len() == 1 { a.as_bytes()[0] } else { b'?' }; } r.n_alt += 1; } }
        for (j, g) in f.iter().skip(9).enumerate() {
            if j < MAXS { r.gts[j] = if *g == "." { -1 } else { match g.parse::<i8>() { Ok(n) if n >= 0 => n, _ => -2 } }; }
            r.n_gt += 1;
        }
        v.push(r);
    }
    v
}
pub fn recorded_header(text: &[u8]) -> (usize, usize, usize) {
    let t = String::from_utf8_lossy(text).to_string();
    let contigs = t.lines().filter(|l| l.starts_with("##contig=")).count();
    let chrom: Vec<&str> = t.lines().filter(|l| l.starts_with("#CHROM")).collect();
    let samples = if chrom.len() == 1 { chrom[0].split('\t').count().saturating_sub(9) } else { 0 };
    (chrom.len(), contigs, samples)
}
