//! Model of the subset of `noodles_vcf` 0.49 that `RefSka::write_vcf` uses.
//!
//! Contract kept: the builder types carry exactly what ska hands them; `Writer::write_header` records the
//! contig and sample names in the order added; `Writer::write_record` records one VCF data line
//! (CHROM, POS, REF, ALT list, one GT string per sample) in the order written.
//! Deliberately different: nothing is formatted into the output stream -- the lines are kept in a recorder
//! that the harness reads back through `recorded()` (the replay shim in /verif/models_real parses the text that
//! the real crate writes into the same structure). Header text, INFO/QUAL/FILTER columns and the validation
//! done by the real builders (e.g. contig-name syntax) do not exist in the model.
#![allow(dead_code)]
use std::io;
use std::marker::PhantomData;

/// capacities = those of the harness group (loops over them are then decided concretely by CBMC)
pub const MAXREC: usize = super::bounds::RCAP;
pub const MAXS: usize = super::bounds::CCAP;

/// one recorded data line; genotype: -1 = '.', n >= 0 = allele index, -2 = anything else
#[derive(Clone, Copy)]
pub struct Rec { pub chrom: [u8; 2], pub chrom_len: usize, pub pos: usize, pub refb: u8, pub alts: [u8; MAXS], pub n_alt: usize, pub gts: [i8; MAXS], pub n_gt: usize }
const EMPTY: Rec = Rec { chrom: [0; 2], chrom_len: 0, pos: 0, refb: 0, alts: [0; MAXS], n_alt: 0, gts: [0; MAXS], n_gt: 0 };
struct Recorder { magic: u64, n: usize, recs: [Rec; MAXREC], header_contigs: usize, header_samples: usize, headers: usize }
static mut RECORDER: Recorder = Recorder { magic: 0x0bad_cafe_f00d_1234, n: 0, recs: [EMPTY; MAXREC], header_contigs: 0, header_samples: 0, headers: 0 };

pub fn recorder_reset() { unsafe { RECORDER.n = 0; RECORDER.headers = 0; } }
/// the data lines written so far (`_text` is what the real writer produced; unused by the model)
pub fn recorded(_text: &[u8]) -> Vec<Rec> { unsafe { let mut v = Vec::with_capacity(MAXREC); let mut i = 0; while i < MAXREC { if i < RECORDER.n { v.push(RECORDER.recs[i]); } i += 1; } v } }
/// (number of header lines written, contigs in it, samples in it)
pub fn recorded_header(_text: &[u8]) -> (usize, usize, usize) { unsafe { (RECORDER.headers, RECORDER.header_contigs, RECORDER.header_samples) } }

/// first two bytes and the length of a name (harness names are two characters long)
fn name4(s: &str) -> ([u8; 2], usize) {
    let b = s.as_bytes();
    let mut a = [0u8; 2];
    if b.len() > 0 { a[0] = b[0]; }
    if b.len() > 1 { a[1] = b[1]; }
    (a, b.len())
}

pub mod header {
    pub mod record { pub mod value {
        pub mod map {
            #[derive(Clone, Copy, Default)]
            pub struct Contig;
            pub mod contig {
                #[derive(Clone)]
                pub struct Name(pub(crate) [u8; 2], pub(crate) usize);
                impl core::str::FromStr for Name {
                    type Err = ();
                    fn from_str(s: &str) -> Result<Self, ()> { if s.is_empty() { return Err(()); } let (a, n) = super::super::super::super::super::name4(s); Ok(Name(a, n)) }
                }
            }
        }
        pub struct Map<T>(pub(crate) core::marker::PhantomData<T>);
        impl<T> Map<T> { pub fn new() -> Self { Map(core::marker::PhantomData) } }
    } }
    pub struct Builder { pub(crate) contigs: usize, pub(crate) samples: usize }
    impl Builder {
        pub fn add_contig(mut self, _id: record::value::map::contig::Name, _c: record::value::Map<record::value::map::Contig>) -> Self { self.contigs += 1; self }
        pub fn add_sample_name<I: Into<String>>(mut self, sample_name: I) -> Self { let s: String = sample_name.into(); core::mem::forget(s); self.samples += 1; self }
        pub fn build(self) -> super::Header { super::Header { contigs: self.contigs, samples: self.samples } }
    }
}
pub struct Header { pub(crate) contigs: usize, pub(crate) samples: usize }
impl Header { pub fn builder() -> header::Builder { header::Builder { contigs: 0, samples: 0 } } }

pub mod record {
    pub mod reference_bases {
        #[derive(Clone, Copy, Debug, PartialEq, Eq)]
        pub enum Base { A, C, G, T, N }
        impl Base { pub(crate) fn ch(self) -> u8 { match self { Base::A => b'A', Base::C => b'C', Base::G => b'G', Base::T => b'T', Base::N => b'N' } } }
    }
    pub mod alternate_bases {
        /// one ALT allele; `Allele::Bases(v)` keeps the first base and the number of bases and leaks the vector
        /// (no drop glue: nested vectors of owning values dominate CBMC's symbolic execution otherwise)
        #[derive(Clone, Copy)]
        pub struct Allele(pub(crate) u8, pub(crate) usize);
        impl Allele {
            #[allow(non_snake_case)]
            pub fn Bases(v: Vec<super::reference_bases::Base>) -> Allele { let a = Allele(if v.is_empty() { b'?' } else { v[0].ch() }, v.len()); core::mem::forget(v); a }
        }
    }
    /// ALT list as plain data (the vector handed over is read and leaked: no drop glue)
    #[derive(Clone, Copy)]
    pub struct AlternateBases(pub(crate) [alternate_bases::Allele; super::MAXS], pub(crate) usize);
    impl From<Vec<alternate_bases::Allele>> for AlternateBases {
        fn from(v: Vec<alternate_bases::Allele>) -> Self {
            assert!(v.len() <= super::MAXS, "model capacity: ALT alleles");
            let mut a = [alternate_bases::Allele(0, 0); super::MAXS];
            let mut i = 0;
            while i < super::MAXS { if i < v.len() { a[i] = v[i]; } i += 1; }
            let n = v.len();
            core::mem::forget(v);
            AlternateBases(a, n)
        }
    }
    #[derive(Clone, Copy)]
    pub struct Position(pub(crate) usize);
    impl From<usize> for Position { fn from(p: usize) -> Self { Position(p) } }
    #[derive(Clone)]
    pub struct Chromosome(pub(crate) [u8; 2], pub(crate) usize);
    impl core::str::FromStr for Chromosome {
        type Err = ();
        fn from_str(s: &str) -> Result<Self, ()> { if s.is_empty() { return Err(()); } let (a, n) = super::name4(s); Ok(Chromosome(a, n)) }
    }
    pub mod genotypes {
        pub mod keys { pub mod key { #[derive(Clone, Copy)] pub struct Key; pub const GENOTYPE: Key = Key; } }
        pub mod sample {
            /// a GT value; `Value::String(s)` decodes the text at once (-1 = '.', 0..9 = allele index, -2 = anything
            /// else) and leaks the string (no drop glue)
            #[derive(Clone, Copy)]
            pub struct Value(pub(crate) i8);
            impl Value {
                #[allow(non_snake_case)]
                pub fn String(s: String) -> Value {
                    let b = s.as_bytes();
                    let v = if b.len() == 1 && b[0] == b'.' { -1 } else if b.len() == 1 && b[0] >= b'0' && b[0] <= b'9' { (b[0] - b'0') as i8 } else { -2 };
                    core::mem::forget(s);
                    Value(v)
                }
            }
        }
        #[derive(Clone, Copy)]
        pub struct Keys(pub(crate) usize);
        impl TryFrom<Vec<keys::key::Key>> for Keys { type Error = (); fn try_from(v: Vec<keys::key::Key>) -> Result<Self, ()> { Ok(Keys(v.len())) } }
    }
    /// genotypes as plain data: first value of every sample (the vectors handed over are read and leaked)
    #[derive(Clone, Copy)]
    pub struct Genotypes { pub(crate) nkeys: usize, pub(crate) gts: [i8; super::MAXS], pub(crate) n: usize }
    impl Genotypes {
        pub fn new(keys: genotypes::Keys, values: Vec<Vec<Option<genotypes::sample::Value>>>) -> Self {
            assert!(values.len() <= super::MAXS, "model capacity: samples");
            let mut gts = [0i8; super::MAXS];
            let mut j = 0;
            while j < super::MAXS { if j < values.len() { gts[j] = match values[j].first() { Some(Some(v)) => v.0, _ => -2 }; } j += 1; }
            let n = values.len();
            core::mem::forget(values);
            Genotypes { nkeys: keys.0, gts, n }
        }
    }
    pub struct Builder { chromosome: Option<Chromosome>, position: Option<Position>, reference_bases: (u8, usize), alternate_bases: AlternateBases, genotypes: Option<Genotypes> }
    #[derive(Debug)]
    pub struct BuildError;
    impl Builder {
        pub fn set_chromosome(mut self, c: Chromosome) -> Self { self.chromosome = Some(c); self }
        pub fn set_position(mut self, p: Position) -> Self { self.position = Some(p); self }
        pub fn add_reference_base(mut self, b: reference_bases::Base) -> Self { if self.reference_bases.1 == 0 { self.reference_bases.0 = b.ch(); } self.reference_bases.1 += 1; self }
        pub fn set_alternate_bases(mut self, a: AlternateBases) -> Self { self.alternate_bases = a; self }
        pub fn set_genotypes(mut self, g: Genotypes) -> Self { self.genotypes = Some(g); self }
        pub fn build(self) -> Result<super::Record, BuildError> {
            if self.chromosome.is_none() || self.position.is_none() || self.reference_bases.1 == 0 { return Err(BuildError); }
            Ok(super::Record { chromosome: self.chromosome.unwrap(), position: self.position.unwrap(), reference_bases: self.reference_bases, alternate_bases: self.alternate_bases, genotypes: self.genotypes })
        }
    }
    pub(crate) fn new_builder() -> Builder { Builder { chromosome: None, position: None, reference_bases: (0, 0), alternate_bases: AlternateBases([alternate_bases::Allele(0, 0); super::MAXS], 0), genotypes: None } }
}
pub struct Record { chromosome: record::Chromosome, position: record::Position, reference_bases: (u8, usize), alternate_bases: record::AlternateBases, genotypes: Option<record::Genotypes> }
impl Record { pub fn builder() -> record::Builder { record::new_builder() } }

pub struct Writer<W: io::Write> { inner: W, _p: PhantomData<W> }
impl<W: io::Write> Writer<W> {
    pub fn new(inner: W) -> Self { Writer { inner, _p: PhantomData } }
    pub fn write_header(&mut self, h: &Header) -> io::Result<()> { unsafe { RECORDER.headers += 1; RECORDER.header_contigs = h.contigs; RECORDER.header_samples = h.samples; } Ok(()) }
    pub fn write_record(&mut self, _h: &Header, r: &Record) -> io::Result<()> {
        let mut rec = EMPTY;
        rec.chrom = r.chromosome.0; rec.chrom_len = r.chromosome.1;
        rec.pos = r.position.0;
        rec.refb = if r.reference_bases.1 == 1 { r.reference_bases.0 } else { b'?' };
        let mut i = 0;
        while i < MAXS { if i < r.alternate_bases.1 { let a = r.alternate_bases.0[i]; rec.alts[i] = if a.1 == 1 { a.0 } else { b'?' }; } i += 1; }
        rec.n_alt = r.alternate_bases.1;
        if let Some(g) = &r.genotypes { rec.n_gt = g.n; rec.gts = g.gts; }
        unsafe { assert!(RECORDER.n < MAXREC, "model capacity: records"); RECORDER.recs[RECORDER.n] = rec; RECORDER.n += 1; }
        Ok(())
    }
}
