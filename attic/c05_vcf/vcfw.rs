//! C05.vcf: `RefSka::write_vcf` turns an arbitrary mapped alignment into VCF records that carry the same
//! information: a record exactly where some sample differs from the (upper-case) reference base; REF = reference
//! base (N if not A/C/G/T); every genotype decodes through REF/ALT to the aligned base ('.' for '-', N for
//! ambiguity codes); contig names/order and sample order as given.
//! The alignment is provided through the environment stub of `AlnWriter` (the writer is C04's subject);
//! noodles_vcf is replaced by the recording model (text formatting is outside the claim).
use super::super::*;
use super::common::*;
use crate::verif_support::*;
use crate::verif_models::noodles_vcf::{recorded, recorded_header, recorder_reset};

/// symbols of a mapped alignment: gap, bases, N (masked) and two ambiguity codes
fn any_aln_symbol() -> u8 {
    let c: u8 = kani::any();
    kani::assume(c == b'-' || c == b'A' || c == b'C' || c == b'G' || c == b'T' || c == b'N' || c == b'R' || c == b'Y');
    c
}
/// stored reference symbols: upper case (RefSka::new stores the reference upper-cased -- C04.case), may hold N/IUPAC
fn any_ref_symbol() -> u8 {
    let c: u8 = kani::any();
    kani::assume(c == b'A' || c == b'C' || c == b'G' || c == b'T' || c == b'N' || c == b'R');
    c
}
fn is_acgt(c: u8) -> bool { c == b'A' || c == b'C' || c == b'G' || c == b'T' }

fn vcf_case<const NS: usize, const NC: usize, const T: usize>(lens: [usize; NC]) {
    recorder_reset();
    crate::verif_models::rayon::model_pool_reset();
    let mut flat = [0u8; T];
    let mut i = 0;
    while i < T { flat[i] = any_ref_symbol(); i += 1; }
    let mut seq: Vec<Vec<u8>> = Vec::with_capacity(NC);
    let mut names: Vec<String> = Vec::with_capacity(NC);
    let mut off = 0;
    let mut c = 0;
    while c < NC { seq.push(flat[off..off + lens[c]].to_vec()); off += lens[c]; names.push(if c == 0 { "c1".to_string() } else if c == 1 { "c2".to_string() } else { "c3".to_string() }); c += 1; }
    let mut aln = [[0u8; T]; NS];
    let mut s = 0;
    while s < NS { let mut p = 0; while p < T { let x = any_aln_symbol(); aln[s][p] = x; provide_aln_cell(s, p, x); p += 1; } s += 1; }
    let mut r = mk_ref(5, vec![ref_kmer(10, 0, 2, 0, false)], seq, names, Vec::new(), false);
    let mut mnames: Vec<String> = Vec::with_capacity(NS);
    let mut tags: Vec<u8> = Vec::with_capacity(NS);
    s = 0;
    while s < NS { mnames.push(if s == 0 { "s0".to_string() } else if s == 1 { "s1".to_string() } else { "s2".to_string() }); tags.push(b'a' + s as u8); s += 1; }
    r.mapped_names = mnames;
    r.mapped_pos = vec![(0, 0)];
    r.mapped_variants = Array2::from_shape_vec((1, NS), tags).unwrap();
    aln_provider(true);
    let mut out: Vec<u8> = Vec::new();
    // (the error value is leaked, not dropped: the drop glue of io::Error dispatches over every error type)
    match r.write_vcf(&mut out, 1) { Ok(()) => {}, Err(e) => { std::mem::forget(e); assert!(false, "write_vcf succeeds"); } }
    let recs = recorded(&out);
    let (nh, hc, hs) = recorded_header(&out);
    assert!(nh == 1 && hc == NC && hs == NS, "one header with every contig and every sample");
    // specification walk
    let mut next = 0usize;
    let mut abs = 0usize;
    c = 0;
    let mut saw_alt2 = false; let mut saw_missing = false; let mut saw_ambig = false; let mut saw_refn = false;
    while c < NC {
        let mut p = 0;
        while p < lens[c] {
            let rb = flat[abs];
            let mut variant = false;
            s = 0;
            while s < NS { if aln[s][abs] != rb { variant = true; } s += 1; }
            if variant {
                assert!(next < recs.len(), "a record is missing where a sample differs from the reference");
                let rec = recs[next];
                next += 1;
                assert!(rec.chrom_len == 2 && rec.chrom[0] == b'c' && rec.chrom[1] == b'1' + c as u8, "record on the contig of the position");
                assert!(rec.pos == p + 1, "1-based position on that contig");
                assert!(rec.refb == if is_acgt(rb) { rb } else { b'N' }, "REF = reference base, N if not A/C/G/T");
                assert!(rec.n_gt == NS, "one genotype per sample");
                s = 0;
                while s < NS {
                    let a = aln[s][abs];
                    let exp = if a == b'-' { b'.' } else if is_acgt(a) { a } else { b'N' };
                    let g = rec.gts[s];
                    let dec = if g == -1 { b'.' } else if g == 0 { rec.refb } else if g > 0 && (g as usize) <= rec.n_alt { rec.alts[g as usize - 1] } else { b'?' };
                    assert!(dec == exp, "genotype decodes through REF/ALT to the aligned base");
                    s += 1;
                }
                if rec.n_alt >= 2 { saw_alt2 = true; }
                if !is_acgt(rb) { saw_refn = true; }
            }
            s = 0;
            while s < NS { if aln[s][abs] == b'-' && variant { saw_missing = true; } if aln[s][abs] == b'R' && variant { saw_ambig = true; } s += 1; }
            abs += 1;
            p += 1;
        }
        c += 1;
    }
    assert!(next == recs.len(), "no record where every sample shows the reference base");
    kani::cover!(saw_alt2, "a record with two ALT alleles");
    kani::cover!(saw_missing, "a missing genotype");
    kani::cover!(saw_ambig, "an ambiguity code in a variant column");
    kani::cover!(saw_refn, "a record at a reference position that is not A/C/G/T");
    kani::cover!(recs.len() == 0, "no variant position at all");
    kani::cover!(recs.len() >= 2 && recs[0].chrom[1] != recs[1].chrom[1], "records on two contigs");
    std::mem::forget(r); std::mem::forget(recs);
}

#[kani::proof]
#[kani::unwind(5)]
fn vcf_s3_l2_1() { vcf_case::<3, 2, 3>([2, 1]); }
#[kani::proof]
#[kani::unwind(4)]
fn vcf_s2_l1_1() { vcf_case::<2, 2, 2>([1, 1]); }
#[kani::proof]
#[kani::unwind(5)]
fn vcf_s3_l1() { vcf_case::<3, 1, 1>([1]); }
#[kani::proof]
#[kani::unwind(6)]
fn vcf_s4_l1() { vcf_case::<4, 1, 1>([1]); }
#[kani::proof]
#[kani::unwind(4)]
fn vcf_s2_l1() { vcf_case::<2, 1, 1>([1]); }
#[kani::proof]
#[kani::unwind(3)]
fn vcf_s1_l1() { vcf_case::<1, 1, 1>([1]); }
