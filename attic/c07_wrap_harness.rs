
/// C07.wrap: `ska merge a.skf 0.skf`: the first array holds one sample ("a") with one k-mer, the file merged into it
/// is a single-sample array ("f0") with three k-mers, one of them shared (so the incoming file is more than twice
/// as large as what has been merged so far). The array handed to `save` must list the samples in argument order and
/// give every k-mer of the union the bases of both samples ('-' where a sample lacks it); saved exactly once.
#[kani::proof]
#[kani::unwind(6)]
fn merge_wrapper_1_plus_3() {
    let b_a = any_stored_sym(); kani::assume(b_a != b'-');
    let mut cells = [(0u64, b'-'); 3];
    let keys = [10u64, 20u64, 30u64];
    let mut i = 0;
    while i < 3 { let x = any_stored_sym(); kani::assume(x != b'-'); cells[i] = (keys[i], x); i += 1; }
    provide_array(0, 3, cells);
    array_provider(true);
    stub_io(true);
    save_recorder(true);
    let first = mk_array::<1, 1>(&[10u64], &[[b_a]]);
    let files = vec!["0.skf".to_string()];
    merge(&first, &files, "out.skf");
    assert!(save_calls() == 1, "saved exactly once");
    let (nn, rows) = recorded_dims();
    assert!(nn == 2 && recorded_name(0) == b'a' && recorded_name(1) == b'f', "samples of all inputs in argument order");
    assert!(rows == 3, "one row per split k-mer of the union");
    let mut seen = [false; 3];
    let mut r = 0;
    while r < 3 {
        let (km, row) = recorded_row(r);
        let mut j = 0;
        while j < 3 {
            if km == keys[j] {
                assert!(!seen[j], "each k-mer once");
                seen[j] = true;
                assert!(row[0] == if j == 0 { b_a } else { b'-' }, "first input's sample keeps its own base, missing where it lacks the k-mer");
                assert!(row[1] == cells[j].1, "second input's sample keeps its own base");
            }
            j += 1;
        }
        r += 1;
    }
    assert!(seen[0] && seen[1] && seen[2], "every k-mer of the union is saved");
    kani::cover!(b_a == b'R' && cells[0].1 == b'A', "shared k-mer with different symbols");
    std::mem::forget(first); std::mem::forget(files);
}
