"""Registry of verification obligations (one obligation = one Kani harness = one solver session).

Fields: id, props (properties it serves), part (harness file <module>/<part>), harness (fully
qualified), tier, caps (model capacities), functions (real functions encoded), inst (instantiation),
bounds, sym, oracle, models, stubs, timeout (s), mem_gb, quick_sample (family sampling in quick tier).
"""
OBL = []
MODPATH = {
    'bit_encoding': 'ska_dict::bit_encoding', 'split_kmer': 'ska_dict::split_kmer', 'nthash': 'ska_dict::nthash',
    'bloom_filter': 'ska_dict::bloom_filter', 'ska_dict': 'ska_dict', 'merge_ska_dict': 'merge_ska_dict',
    'merge_ska_array': 'merge_ska_array', 'generic_modes': 'generic_modes', 'ska_ref': 'ska_ref',
    'aln_writer': 'ska_ref::aln_writer', 'idx_check': 'ska_ref::idx_check',
}


def ob(id, props, part, fn, tier='quick', **kw):
    mod, p = part.split('/')
    d = dict(id=id, props=props if isinstance(props, list) else [props], part=part,
             harness='%s::verif_harness::%s::%s' % (MODPATH[mod], p, fn), tier=tier)
    d.update(kw)
    OBL.append(d)
    return d


BE = 'src/ska_dict/bit_encoding.rs::'
# ------------------------------------------------------------------ C15
ob('C15.union', 'C15', 'bit_encoding/c15', 'c15_union_table', functions=[BE + 'IUPAC'], sym='existing byte (256) x new base (4)',
   oracle='code(set(existing) ∪ {base}) by an independent 4-bit-set specification; non-code bytes -> 0', bounds='complete domain: 1024 cells', timeout=300)
ob('C15.fold', 'C15', 'bit_encoding/c15', 'c15_union_fold_order', functions=[BE + 'IUPAC', BE + 'decode_base'], sym='4 observed bases (all 256 sequences)',
   oracle='fold through the table = code of the set of bases seen (order and multiplicity independent)', bounds='4 observations: every subset of {A,C,G,T} in every order', timeout=300)
ob('C15.rc', 'C15', 'bit_encoding/c15', 'c15_rc_table', functions=[BE + 'RC_IUPAC'], sym='byte (256)',
   oracle='complemented set; involution on upper-case codes; fixes S, W, N, gap', bounds='complete domain: 256 bytes', timeout=300)
ob('C15.amb', 'C15', 'bit_encoding/c15', 'c15_is_ambiguous', functions=[BE + 'is_ambiguous'], sym='byte (256)',
   oracle='IUPAC letter (either case) ambiguous iff not A/C/G/T/U; gap not ambiguous', bounds='complete domain: 256 bytes', timeout=300)
ob('C15.prob', ['C15', 'C14'], 'bit_encoding/c15', 'c15_base_to_prob', functions=[BE + 'base_to_prob'], sym='byte (256)',
   oracle='uniform exact f64 weight on the code\'s set, zero elsewhere, U = T, N and gap all-zero', bounds='complete domain: 256 bytes', timeout=300)
# ------------------------------------------------------------------ C16 kernels
ob('C16.rc.u64', ['C16'], 'bit_encoding/c16', 'c16_rc_u64_all_n', functions=[BE + '<u64 as UInt>::rev_comp'], inst='u64', sym='n in 1..=32, packed value < 4^n',
   oracle='base-by-base reverse complement; involution', bounds='all n (unwind 33)', timeout=600)
ob('C16.rc.u128', ['C16'], 'bit_encoding/c16', 'c16_rc_u128_all_n', functions=[BE + '<u128 as UInt>::rev_comp'], inst='u128', sym='n in 1..=64, packed value < 4^n',
   oracle='base-by-base reverse complement; involution', bounds='all n (unwind 65)', timeout=900)
ob('C16.mask.u64', ['C16'], 'bit_encoding/c16', 'c16_masks_u64', functions=[BE + '<u64 as UInt>::generate_masks', BE + '<u64 as UInt>::skalo_mask'], inst='u64', sym='odd k in 5..=31',
   oracle='lower = 4^h-1, upper = lower*4^h, skalo = 4^k-1', bounds='all valid k for u64', timeout=300)
ob('C16.mask.u128', ['C16'], 'bit_encoding/c16', 'c16_masks_u128', functions=[BE + '<u128 as UInt>::generate_masks', BE + '<u128 as UInt>::skalo_mask'], inst='u128', sym='odd k in 5..=63',
   oracle='lower = 4^h-1, upper = lower*4^h, skalo = 4^k-1', bounds='all valid k for u128', timeout=300)
ob('C16.enc.u64', ['C16'], 'bit_encoding/c16', 'c16_encode_u64', functions=[BE + 'UInt::encode_kmer', BE + 'UInt::combine_kmers', BE + 'UInt::get_last_nucl', BE + 'lsb_u8'], inst='u64',
   sym='1..=31 bases in either case', oracle='reference packing; last-nucleotide and combine identities', bounds='all lengths <= 31', timeout=600)
ob('C16.enc.u128', ['C16'], 'bit_encoding/c16', 'c16_encode_u128', functions=[BE + 'UInt::encode_kmer', BE + 'UInt::get_last_nucl', BE + 'lsb_u8'], inst='u128',
   sym='1..=63 bases in either case', oracle='reference packing; last-nucleotide identity', bounds='all lengths <= 63', timeout=900)
ob('C16.codec', ['C16', 'C02'], 'bit_encoding/c16', 'c16_base_codec', functions=[BE + 'encode_base', BE + 'decode_base', BE + 'rc_base', BE + 'valid_base'], sym='byte (256)',
   oracle='2-bit code case-insensitive, decode(encode)=upper-case base, rc complements, N/n invalid', bounds='complete domain', timeout=300)
