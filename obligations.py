"""Registry of verification obligations (one obligation = one Kani harness = one solver session).

Fields: id, props (properties it serves), part (harness file <module>/<part>), harness (fully
qualified), tier, caps (model capacities), functions (real functions encoded), inst (instantiation),
bounds, sym, oracle, models, stubs, timeout (s), mem_gb, quick_sample (family sampling in quick tier).
"""
OBL = []
MODPATH = {
    'bit_encoding': 'ska_dict::bit_encoding', 'split_kmer': 'ska_dict::split_kmer', 'nthash': 'ska_dict::nthash',
    'bloom_filter': 'ska_dict::bloom_filter', 'ska_dict': 'ska_dict', 'merge_ska_dict': 'merge_ska_dict',
    'merge_ska_array': 'merge_ska_array', 'generic_modes': 'generic_modes', 'ska_ref': 'ska_ref',
    'aln_writer': 'ska_ref::aln_writer', 'idx_check': 'ska_ref::idx_check',
}


def ob(id, props, part, fn, tier='quick', **kw):
    mod, p = part.split('/')
    d = dict(id=id, props=props if isinstance(props, list) else [props], part=part,
             harness='%s::verif_harness::%s::%s' % (MODPATH[mod], p, fn), tier=tier)
    d.update(kw)
    OBL.append(d)
    return d


BE = 'src/ska_dict/bit_encoding.rs::'
# ------------------------------------------------------------------ C15
ob('C15.union', 'C15', 'bit_encoding/c15', 'c15_union_table', functions=[BE + 'IUPAC'], sym='existing byte (256) x new base (4)',
   oracle='code(set(existing) ∪ {base}) by an independent 4-bit-set specification; non-code bytes -> 0', bounds='complete domain: 1024 cells', timeout=300)
ob('C15.fold', 'C15', 'bit_encoding/c15', 'c15_union_fold_order', functions=[BE + 'IUPAC', BE + 'decode_base'], sym='4 observed bases (all 256 sequences)',
   oracle='fold through the table = code of the set of bases seen (order and multiplicity independent)', bounds='4 observations: every subset of {A,C,G,T} in every order', timeout=300)
ob('C15.rc', 'C15', 'bit_encoding/c15', 'c15_rc_table', functions=[BE + 'RC_IUPAC'], sym='byte (256)',
   oracle='complemented set; involution on upper-case codes; fixes S, W, N, gap', bounds='complete domain: 256 bytes', timeout=300)
ob('C15.amb', 'C15', 'bit_encoding/c15', 'c15_is_ambiguous', functions=[BE + 'is_ambiguous'], sym='byte (256)',
   oracle='IUPAC letter (either case) ambiguous iff not A/C/G/T/U; gap not ambiguous', bounds='complete domain: 256 bytes', timeout=300)
ob('C15.prob', ['C15', 'C14'], 'bit_encoding/c15', 'c15_base_to_prob', functions=[BE + 'base_to_prob'], sym='byte (256)',
   oracle='uniform exact f64 weight on the code\'s set, zero elsewhere, U = T, N and gap all-zero', bounds='complete domain: 256 bytes', timeout=300)
# ------------------------------------------------------------------ C16 kernels
ob('C16.rc.u64', ['C16'], 'bit_encoding/c16', 'c16_rc_u64_all_n', functions=[BE + '<u64 as UInt>::rev_comp'], inst='u64', sym='n in 1..=32, packed value < 4^n',
   oracle='base-by-base reverse complement; involution', bounds='all n (unwind 33)', timeout=600)
ob('C16.rc.u128', ['C16'], 'bit_encoding/c16', 'c16_rc_u128_all_n', functions=[BE + '<u128 as UInt>::rev_comp'], inst='u128', sym='n in 1..=64, packed value < 4^n',
   oracle='base-by-base reverse complement; involution', bounds='all n (unwind 65)', timeout=900)
ob('C16.mask.u64', ['C16'], 'bit_encoding/c16', 'c16_masks_u64', functions=[BE + '<u64 as UInt>::generate_masks', BE + '<u64 as UInt>::skalo_mask'], inst='u64', sym='odd k in 5..=31',
   oracle='lower = 4^h-1, upper = lower*4^h, skalo = 4^k-1', bounds='all valid k for u64', timeout=300)
ob('C16.mask.u128', ['C16'], 'bit_encoding/c16', 'c16_masks_u128', functions=[BE + '<u128 as UInt>::generate_masks', BE + '<u128 as UInt>::skalo_mask'], inst='u128', sym='odd k in 5..=63',
   oracle='lower = 4^h-1, upper = lower*4^h, skalo = 4^k-1', bounds='all valid k for u128', timeout=300)
ob('C16.enc.u64', ['C16'], 'bit_encoding/c16', 'c16_encode_u64', functions=[BE + 'UInt::encode_kmer', BE + 'UInt::combine_kmers', BE + 'UInt::get_last_nucl', BE + 'lsb_u8'], inst='u64',
   sym='1..=31 bases in either case', oracle='reference packing; last-nucleotide and combine identities', bounds='all lengths <= 31', timeout=600)
ob('C16.enc.u128', ['C16'], 'bit_encoding/c16', 'c16_encode_u128', functions=[BE + 'UInt::encode_kmer', BE + 'UInt::get_last_nucl', BE + 'lsb_u8'], inst='u128',
   sym='1..=63 bases in either case', oracle='reference packing; last-nucleotide identity', bounds='all lengths <= 63', timeout=900)
ob('C16.codec', ['C16', 'C02'], 'bit_encoding/c16', 'c16_base_codec', functions=[BE + 'encode_base', BE + 'decode_base', BE + 'rc_base', BE + 'valid_base'], sym='byte (256)',
   oracle='2-bit code case-insensitive, decode(encode)=upper-case base, rc complements, N/n invalid', bounds='complete domain', timeout=300)

SK = 'src/ska_dict/split_kmer.rs::SplitKmer::'
WINF = [SK + f for f in ('new', 'build', 'roll_fwd', 'update_rc', 'get_curr_kmer', 'get_next_kmer', 'get_middle_pos')]
WIN_ORACLE = 'independent specification: every start s with s+k<=len and no N in the window, in increasing s: canonical packed split k-mer, middle base, strand flag, middle position; no missing and no extra window'
# ------------------------------------------------------------------ C01.win
for (nm, ty, k, L, tier, tmo) in [('u64.k5', 'u64', 5, 8, 'quick', 900), ('u64.k7', 'u64', 7, 10, 'quick', 1200), ('u64.k9', 'u64', 9, 12, 'thorough', 3600), ('u64.k5l11', 'u64', 5, 11, 'thorough', 3600),
                                  ('u128.k5', 'u128', 5, 8, 'thorough', 1800), ('u128.k7', 'u128', 7, 10, 'thorough', 2400)]:
    ob('C01.win.' + nm, ['C01', 'C16', 'C02', 'C03'] if nm == 'u64.k5' else ['C01'], 'split_kmer/win', 'win_%s_k%d_l%d' % (ty, k, L), tier=tier, functions=WINF, inst=ty, needs_parts=['split_kmer/common'],
       sym='record bytes over {A,C,G,T,N,a,c,g,t,n}, record length 0..=%d, strand mode' % L, oracle=WIN_ORACLE, bounds='k=%d, record length <= %d' % (k, L), timeout=tmo, mem_gb=10)

# ------------------------------------------------------------------ C16.roll / C01.pack / C02.strand / C02.case
ROLLF = [SK + f for f in ('new', 'build', 'roll_fwd', 'update_rc', 'get_curr_kmer', 'get_middle_pos')] + [BE + 'UInt::rev_comp', BE + 'UInt::generate_masks']
for (nm, fn, inst, kr, tier, tmo) in [('u64', 'roll_u64_all_k', 'u64', 'all odd k in 5..=31', 'quick', 1500),
                                      ('u128.lo', 'roll_u128_k_le_31', 'u128', 'all odd k in 5..=31', 'thorough', 3600),
                                      ('u128.hi', 'roll_u128_k_33_63', 'u128', 'all odd k in 33..=63', 'thorough', 7200)]:
    ob('C16.roll.' + nm, ['C16', 'C01'], 'split_kmer/roll', fn, tier=tier, functions=ROLLF, inst=inst, needs_parts=['split_kmer/common'],
       sym='k, k+2 valid bases in either case, strand mode', oracle='roll_fwd(new(w)) == new(shift(w)) on all private fields; new(w) == specification packing; canonical choice by <',
       bounds=kr + ', window of k+2 bases', timeout=tmo, mem_gb=16)
STRF = [SK + f for f in ('new', 'build', 'update_rc', 'get_curr_kmer', 'self_palindrome')]
for (nm, fn, inst, kr, tier, tmo) in [('u64', 'strand_u64_all_k', 'u64', 'all odd k in 5..=31', 'quick', 1500),
                                      ('u128.lo', 'strand_u128_k_le_31', 'u128', 'all odd k in 5..=31', 'thorough', 3600),
                                      ('u128.hi', 'strand_u128_k_33_63', 'u128', 'all odd k in 33..=63', 'thorough', 7200)]:
    ob('C02.strand.' + nm, ['C02', 'C01'], 'split_kmer/roll', fn, tier=tier, functions=STRF, inst=inst, needs_parts=['split_kmer/common'],
       sym='k, window of k valid bases', oracle='new(w) and new(revcomp(w)) give the same k-mer and middle base; palindrome flag iff arms equal their reverse complement; forward orientation then',
       bounds=kr, timeout=tmo, mem_gb=16)
ob('C02.case', ['C02'], 'split_kmer/roll', 'case_mask_u64_all_k', functions=STRF, inst='u64', needs_parts=['split_kmer/common'], sym='k, window, arbitrary case mask, strand mode',
   oracle='iterator state identical for any case mask', bounds='all odd k in 5..=31', timeout=1200, mem_gb=12)
# ------------------------------------------------------------------ C12 quality rules
ob('C12.q', ['C12'], 'split_kmer/qual', 'qual_threshold', functions=[SK + 'valid_qual'], needs_parts=['split_kmer/common'], sym='quality byte 33..=126, min_qual 0..=93',
   oracle='accepted iff phred >= min_qual', bounds='complete domain', timeout=300)
for rule in ('strict', 'middle', 'none'):
    ob('C12.win.' + rule, ['C12'], 'split_kmer/qual', 'qual_win_%s_k5_l8' % rule, functions=WINF + [SK + 'valid_qual', SK + 'middle_base_qual'], inst='u64', needs_parts=['split_kmer/common'],
       sym='read <= 8 symbols over {ACGTNacgtn}, quality string, min_qual 0..=60, strand mode', oracle='strict: windows with no N and every quality >= min; middle/none: all N-free windows and middle-base verdict',
       bounds='k=5, read length <= 8, rule=' + rule, timeout=1800, mem_gb=12)

# ------------------------------------------------------------------ C16.nthash / C12.hash
NTF = ['src/ska_dict/nthash.rs::NtHashIterator::' + f for f in ('new', 'roll_fwd', 'curr_hash')]
for k in range(5, 15, 2):
    ob('C16.nthash.k%d' % k, ['C16', 'C12'], 'nthash/c16', 'nthash_k%d' % k, tier='quick' if k <= 7 else 'thorough', functions=NTF, sym='k+1 valid bases (all symbolic), strand mode',
       oracle='roll = recompute; hash(w) = hash(revcomp(w)) with strands merged', bounds='k=%d, every window' % k, timeout=2400, mem_gb=10)
for k in range(5, 64, 2):
    ob('C16.nthash.slice.k%d' % k, ['C16', 'C12'], 'nthash/c16', 'nthash_slice_k%d' % k, tier='thorough', functions=NTF, sym='leaving base, entering base, one base at a symbolic position; background all-A or ACGT-repeat; strand mode',
       oracle='roll = recompute; hash(w) = hash(revcomp(w)) with strands merged', bounds='k=%d, windows that differ from the background in <= 3 positions' % k, timeout=1200, mem_gb=10,
       quick_sample={'family': 'nthash.slice', 'pick': 3, 'always': k in (31, 63)})
# ------------------------------------------------------------------ C05.idx
IDF = ['src/ska_ref/idx_check.rs::IdxCheck::new', 'src/ska_ref/idx_check.rs::IdxCheck::iter', 'src/ska_ref/idx_check.rs::IdxCheckIter::next']
ob('C05.idx.3x4', ['C05'], 'idx_check/c05', 'idx_iter_3x4', functions=IDF, sym='3 contig lengths in 1..=4', oracle='i-th item = (contig, offset) of absolute index i; exactly sum(lengths) items then None',
   bounds='3 contigs of length 1..=4 (non-empty)', timeout=600)
ob('C05.idx.4x6', ['C05'], 'idx_check/c05', 'idx_iter_4x6', tier='thorough', functions=IDF, sym='4 contig lengths in 1..=6', oracle='as C05.idx.3x4', bounds='4 contigs of length 1..=6 (non-empty)', timeout=1800)

# ------------------------------------------------------------------ C06 filter
MA = 'src/merge_ska_array.rs::MergeSkaArray::'
FILTF = [MA + 'filter', MA + 'update_counts', BE + 'is_ambiguous']
FTN = ['nofilter', 'noconst', 'noambig', 'noambigorconst']
for c in (3, 4):
    for ft in range(4):
        for am in (0, 1):
            for mk in (0, 1):
                for ng in (0, 1):
                    for uk in (0, 1):
                        cfg = '%s.am%d.mk%d.ng%d.uk%d' % (FTN[ft], am, mk, ng, uk)
                        always = (ft, am, mk, ng, uk) in ((1, 0, 0, 0, 0), (3, 1, 1, 1, 1))
                        d = ob('C06.row.c%d.%s' % (c, cfg), ['C06'], 'merge_ska_array/filter', 'frow_c%d_%s_am%d_mk%d_ng%d_uk%d' % (c, FTN[ft], am, mk, ng, uk), tier='thorough',
                               functions=FILTF, inst='u64', needs_parts=['merge_ska_array/common'], caps={'RCAP': 1, 'CCAP': c, 'SCAP': c, 'MCAP': 1}, models=['ndarray', 'hashbrown'],
                               sym='one row of %d symbols over the 16 stored symbols, min_count 0..=%d' % (c, c + 1), oracle='row kept iff count >= max(1,min_count) and site predicate (from the property text); kept row shows stored bases, ambiguity codes as N under mask',
                               bounds='1 row x %d samples; flags concrete: filter=%s ambig-as-missing=%d mask=%d no-gap-only=%d update-kmers=%d' % (c, FTN[ft], am, mk, ng, uk), timeout=1500, mem_gb=10)
                        if (c, ft, am, mk, ng, uk) == (3, 1, 0, 0, 0, 0):
                            d['props'] = ['C06', 'C03']
                            d['tier'] = 'quick'
                        if ft == 0:
                            d['dead_witnesses'] = ['a row is dropped by the site filter']
                        if c == 3:
                            d['quick_sample'] = {'family': 'C06.row', 'pick': 8, 'always': always}
for (nm, fn) in [('noconst', 'filter2_noconst_plain'), ('noconst.uk', 'filter2_noconst_uk'), ('noambig.mask', 'filter2_noambig_mask'),
                 ('noconst.ng', 'filter2_noconst_ng'), ('noambigorconst', 'filter2_noambigorconst_plain'), ('nofilter.mask.uk', 'filter2_nofilter_mask_uk')]:
    ob('C06.align.' + nm, ['C06'], 'merge_ska_array/filter', fn, tier='quick' if nm in ('noconst.uk', 'noambig.mask') else 'thorough', functions=FILTF, inst='u64', needs_parts=['merge_ska_array/common'],
       caps={'RCAP': 2, 'CCAP': 2, 'SCAP': 2, 'MCAP': 1}, models=['ndarray', 'hashbrown'], stubs=['update_counts(false) -> identity on arrays with exact counts (lemma C06.cnt; configurations without ambig-as-missing only)'], sym='2 rows x 2 symbols over the 16 stored symbols, min_count 0..=2',
       oracle='kept rows keep their order; k-mers (when updated), variants and counts stay row-aligned; removed count', bounds='2 rows x 2 samples, flags: ' + nm, timeout=3600, mem_gb=24, mem_expect_gb=10)
ob('C06.cnt', ['C06', 'C10'], 'merge_ska_array/filter', 'update_counts_2x3', functions=[MA + 'update_counts'], inst='u64', needs_parts=['merge_ska_array/common'], caps={'RCAP': 2, 'CCAP': 3, 'SCAP': 3, 'MCAP': 1}, models=['ndarray'],
   sym='2 rows x 3 symbols, stale counts, both counting modes', oracle='counts recomputed, empty rows removed, k-mers aligned', bounds='2x3', timeout=1200, mem_gb=10)

# ------------------------------------------------------------------ C04 AlnWriter (inductive)
AW = 'src/ska_ref/aln_writer.rs::AlnWriter::'
for (nm, fn, tier, tmo) in [('h2.12', 'aln_step_h2_12', 'quick', 2400), ('h2.7_1_6', 'aln_step_h2_7_1_6', 'quick', 2400), ('h2.6_6', 'aln_step_h2_6_6', 'thorough', 3600), ('h2.5_2_5', 'aln_step_h2_5_2_5', 'thorough', 3600),
                            ('h2.1_6_5', 'aln_step_h2_1_6_5', 'thorough', 3600), ('h2.4_4_4', 'aln_step_h2_4_4_4', 'thorough', 3600), ('h3.16', 'aln_step_h3_16', 'thorough', 7200), ('h3.7_3_7', 'aln_step_h3_7_3_7', 'thorough', 7200)]:
    ob('C04.step.' + nm, ['C04'], 'aln_writer/step', fn, tier=tier, family='C04.step', functions=[AW + 'write_split_kmer', AW + 'fill_fwd_bases', AW + 'fill_contig'], needs_parts=['aln_writer/common'],
       sym='entire writer state and ghost set M of written centres under assume(Inv); next centre valid and after all of M; base; mask flag; reference bases',
       oracle='Inv(post, M + {(c,p)}); middle base buffered (masked iff ambiguous under mask) at its absolute position', bounds='contig layout ' + nm + ' (h = (k-1)/2)', timeout=tmo, mem_gb=12)
for (nm, fn) in [('h2.5_2_5', 'aln_init_h2_5_2_5'), ('h3.14', 'aln_init_h3_14')]:
    ob('C04.init.' + nm, ['C04'], 'aln_writer/step', fn, functions=[AW + 'new', AW + 'total_size'], needs_parts=['aln_writer/common'], sym='reference bases', oracle='Inv(new, {}) and output length = sum of contig lengths',
       bounds='layout ' + nm, timeout=900, mem_gb=8)
for (nm, fn, tier, tmo) in [('h2.5_2_5', 'aln_fin_h2_5_2_5', 'quick', 2400), ('h2.12', 'aln_fin_h2_12', 'thorough', 3600), ('h2.6_6', 'aln_fin_h2_6_6', 'thorough', 3600), ('h3.16', 'aln_fin_h3_16', 'thorough', 7200)]:
    ob('C04.fin.' + nm, ['C04'], 'aln_writer/fin', fn, tier=tier, functions=[AW + 'finalise', AW + 'fill_contig', AW + 'fill_fwd_bases'], needs_parts=['aln_writer/common'],
       sym='entire writer state under assume(Inv) with <= 2 centres; 2 symbolic repeat coordinates; reference bases', oracle='output = specification of the property (centre -> middle base; within h of a matched centre on the same contig -> reference base; else gap; N at non-gap repeat coordinates)',
       bounds='layout ' + nm + ', <= 2 matched centres', timeout=tmo, mem_gb=12)
HIST_DEAD = {'h2.10.two': ['windows on two contigs', 'repeat coordinate on a flank', 'two windows with a gap between them'], 'h2.10.one_rep': ['two overlapping windows on one contig', 'two windows with a gap between them', 'windows on two contigs'],
             'h2.6_5.two': ['two windows with a gap between them', 'repeat coordinate on a flank']}
for (nm, fn) in [('h2.10.two', 'aln_hist_h2_10_two'), ('h2.10.one_rep', 'aln_hist_h2_10_one_rep'), ('h2.6_5.two', 'aln_hist_h2_6_5_two')]:
    ob('C04.hist.' + nm, ['C04'], 'aln_writer/hist', fn, tier='quick' if nm == 'h2.10.two' else 'thorough', family='C04.hist', functions=[AW + 'new', AW + 'write_split_kmer', AW + 'finalise'], needs_parts=['aln_writer/common'],
       sym='reference bases, 1 or 2 centres in reference order, bases, mask flag, optional repeat coordinate', oracle='output = specification directly (no invariant involved)', bounds='layout ' + nm + ', <= 2 calls', timeout=2400, mem_gb=12, dead_witnesses=HIST_DEAD[nm])

# ------------------------------------------------------------------ C01.acc
SD = 'src/ska_dict.rs::SkaDict::'
ob('C01.acc', ['C01', 'C02', 'C15'], 'ska_dict/acc', 'acc_one_kmer', functions=[SD + 'add_to_dict', BE + 'IUPAC', BE + 'decode_base'], inst='u64', caps={'MCAP': 2, 'SCAP': 1, 'RCAP': 1, 'CCAP': 1}, models=['hashbrown'],
   sym='1..=4 observed middle bases of one split k-mer, interleaved with one observation of another k-mer', oracle='exactly one entry per k-mer; stored byte = IUPAC code of the set of bases seen (order/multiplicity independent)',
   bounds='<= 4 observations (every subset of {A,C,G,T} in every order)', timeout=900, mem_gb=8)
ob('C01.acc.pal', ['C01', 'C15', 'C02'], 'ska_dict/acc', 'acc_palindrome', functions=[SD + 'add_palindrome_to_dict'], inst='u64', caps={'MCAP': 2, 'SCAP': 1, 'RCAP': 1, 'CCAP': 1}, models=['hashbrown'],
   sym='1..=4 observed middle bases of a self-reverse-complement split k-mer', oracle='entry = code of bases seen plus complements: W, S or N', bounds='<= 4 observations', timeout=900, mem_gb=8)

# ------------------------------------------------------------------ C03.new / C02.cols / C07
MD = 'src/merge_ska_dict.rs::MergeSkaDict::'
# (the variants with a symbolic presence pattern -- append_new_2x2, append_new_3x3 -- exhaust 16 GB and are not registered)
for m in range(16):
    ob('C03.new.2x2.p%d' % m, ['C03', 'C02', 'C01', 'C07'], 'merge_ska_dict/append', 'append_new_2x2_p%d' % m, tier='thorough', functions=[MD + 'new', MD + 'append', MA + 'new', MA + 'n_sample_kmers', MA + 'iter'], inst='u64',
       needs_parts=['merge_ska_dict/common', 'ska_dict/acc', 'merge_ska_array/common'], caps={'MCAP': 2, 'SCAP': 1, 'RCAP': 2, 'CCAP': 2}, models=['hashbrown', 'ndarray'],
       sym='2 sample dictionaries over a 2-key universe: IUPAC codes symbolic, presence pattern concrete (mask %d), append order %s' % (m, 'natural' if m % 2 == 0 else 'swapped'),
       oracle='as C03.new.2x2', bounds='2 samples, 2 keys', timeout=1200, mem_gb=10, dead_witnesses=['all k-mers present, first sample lacks one', 'a single shared or private k-mer'], quick_sample={'family': 'C03.new', 'pick': 3, 'always': m in (7, 14)})
for n1, n2 in ((1, 2), (2, 1)):
    for p0 in range(4):
        for p1 in range(4):
            ob('C07.ext.p%d%d.n%d%d' % (p0, p1, n1, n2), ['C07'], 'merge_ska_dict/extend', 'extend_p%d%d_n%d%d' % (p0, p1, n1, n2), tier='thorough', functions=[MD + 'extend'], inst='u64',
               needs_parts=['merge_ska_dict/common', 'ska_dict/acc'], caps={'MCAP': 2, 'SCAP': 1, 'RCAP': 1, 'CCAP': 1}, models=['hashbrown'],
               sym='two merged dictionaries with %d and %d samples over a 2-key universe; bases/missing symbolic; presence pattern concrete (key0=%d, key1=%d; 1=self 2=other 3=both)' % (n1, n2, p0, p1),
               oracle='names concatenated; for every key of the union vector = (self | 0^n1) ++ (other | 0^n2); n_samples summed; no other key', bounds='%d+%d samples, 2 keys' % (n1, n2), timeout=1500, mem_gb=12,
               quick_sample={'family': 'C07.ext', 'pick': 6, 'always': (p0, p1, n1) in ((3, 1, 1), (2, 3, 2))})
for (nm, fn, f) in [('extend.k', 'extend_refuses_k', 'extend'), ('extend.strand', 'extend_refuses_strand', 'extend'), ('append.k', 'append_refuses_k', 'append'), ('append.strand', 'append_refuses_strand', 'append')]:
    ob('C07.refuse.' + nm, ['C07'], 'merge_ska_dict/extend', fn, functions=[MD + f], inst='u64', needs_parts=['merge_ska_dict/common', 'ska_dict/acc'], caps={'MCAP': 2, 'SCAP': 1, 'RCAP': 1, 'CCAP': 1}, models=['hashbrown'],
       sym='strand mode; second input differs in ' + nm.split('.')[1], oracle='the refusing panic inside %s is reachable and the statement after the call is not' % f, bounds='2 keys', timeout=900, mem_gb=8,
       expected_fail=['in function merge_ska_dict::MergeSkaDict::<u64>::' + f])

# ------------------------------------------------------------------ C08 delete
CAP23 = {'RCAP': 2, 'CCAP': 3, 'SCAP': 3, 'MCAP': 2}
CAP33 = {'RCAP': 3, 'CCAP': 3, 'SCAP': 3, 'MCAP': 2}
for (m, r) in [(1, 0), (2, 0), (4, 0), (3, 0), (5, 0), (6, 0), (3, 1), (5, 1), (6, 1)]:
    ob('C08.del.m%d%s' % (m, '.rev' if r else ''), ['C08', 'C10'], 'merge_ska_array/delete', 'delete_m%d_%s' % (m, 'rev' if r else 'fwd'), tier='quick' if (m, r) in ((1, 0), (2, 0), (6, 1)) else 'thorough',
       functions=[MA + 'delete_samples', MA + 'update_counts'], inst='u64', needs_parts=['merge_ska_array/common'], caps=CAP23, models=['ndarray', 'hashbrown'],
       sym='2 x 3 table over the 16 stored symbols; subset of {a,b,c} to delete concrete (mask %d), names passed %s' % (m, 'in reverse order' if r else 'in file order'),
       oracle='remaining columns in order with all their bases; rows that become empty removed; counts recomputed; k-mers aligned', bounds='3 samples, 2 k-mers', timeout=2400, mem_gb=12)
for w in ('absent', 'all', 'none'):
    ob('C08.refuse.' + w, ['C08'], 'merge_ska_array/delete', 'delete_refuses_' + w, functions=[MA + 'delete_samples'], inst='u64', needs_parts=['merge_ska_array/common'], caps=CAP23, models=['ndarray', 'hashbrown'],
       sym='2 x 3 table; delete list: ' + w, oracle='the refusing panic inside delete_samples is reachable and the statement after the call is not', bounds='3 samples', timeout=900, mem_gb=8,
       expected_fail=['in function merge_ska_array::MergeSkaArray::<u64>::delete_samples'])
# ------------------------------------------------------------------ C14 distances
ob('C14.pair', ['C14'], 'merge_ska_array/dist', 'variant_dist_pair_r4', functions=[MA + 'variant_dist', BE + 'base_to_prob'], inst='u64', needs_parts=['merge_ska_array/common'], caps={'RCAP': 1, 'CCAP': 1, 'SCAP': 1, 'MCAP': 1}, models=['ndarray (ArrayView)'],
   sym='two columns of 4 symbols over {A,C,G,T,-}, constant 0..=3', oracle='distance = #{both present, different}; mismatch = m/(constant+both+m), 0 if empty; in [0,1]; symmetric; identical -> (0,0)', bounds='4 k-mers', timeout=1800, mem_gb=12)
ob('C14.all', ['C14'], 'merge_ska_array/dist', 'distance_all_pairs_2x3', functions=[MA + 'distance', MA + 'variant_dist'], inst='u64', needs_parts=['merge_ska_array/common'], caps=CAP23, models=['ndarray', 'rayon (sequential)', 'indicatif'],
   sym='2 x 3 table over {A,C,G,T,-}, constant 0..=2', oracle='row i holds pairs (i,j), j>i, each unordered pair once, values = pairwise specification', bounds='3 samples, 2 k-mers', timeout=2400, mem_gb=12)
ob('C14.all.empty', ['C14'], 'merge_ska_array/dist', 'distance_all_pairs_0x3', functions=[MA + 'distance', MA + 'variant_dist'], inst='u64', needs_parts=['merge_ska_array/common'], caps=CAP23, models=['ndarray', 'rayon (sequential)', 'indicatif'],
   sym='0 x 3 table (no variable k-mer left after the pre-filters), constant 0..=2', oracle='every unordered pair reported exactly once with distance 0 and mismatch 0', bounds='3 samples, 0 k-mers', timeout=1200, mem_gb=10)
# ------------------------------------------------------------------ C07.rt / C03.fasta / C01.nk
ob('C07.rt', ['C07', 'C10'], 'merge_ska_array/conv', 'array_dict_roundtrip_2x3', functions=[MA + 'to_dict', MA + 'new', MD + 'build_from_array'], inst='u64', needs_parts=['merge_ska_array/common'], caps=CAP23, models=['ndarray', 'hashbrown'],
   sym='2 x 3 table over the 16 stored symbols, strand mode, stale stored count', oracle='array -> dict -> array preserves k, strand mode, names and the key -> row map; counts recomputed', bounds='2 x 3', timeout=2400, mem_gb=12)
for r in (0, 1, 2):
    ob('C03.fasta.%dx3' % r, ['C03', 'C06'], 'merge_ska_array/conv', 'write_fasta_%dx3' % r, tier='quick' if r == 2 else 'thorough', functions=[MA + 'write_fasta'], inst='u64', needs_parts=['merge_ska_array/common'], caps=CAP33, models=['ndarray', 'needletail::write_fasta'],
       sym='%d rows x 3 samples over the 16 stored symbols' % r, oracle='one record per sample in input order, sequence i = column i, all of equal length', bounds='%d x 3' % r, timeout=2400, mem_gb=12)
ob('C01.nk', ['C01'], 'merge_ska_array/conv', 'n_sample_kmers_2x3', functions=[MA + 'n_sample_kmers', MA + 'ksize', MA + 'nsamples'], inst='u64', needs_parts=['merge_ska_array/common'], caps=CAP23, models=['ndarray'],
   sym='2 x 3 table', oracle='per-sample count = number of non-gap cells in the column', bounds='2 x 3', timeout=900, mem_gb=8)

# ------------------------------------------------------------------ C04.map
RS = 'src/ska_ref.rs::RefSka::'
for nr in (2, 3):
    for pat in ('11', '10', '01', '00'):
        ob('C04.map%s.p%s' % ('' if nr == 2 else '3', pat), ['C04', 'C15'], 'ska_ref/map', 'map%s_p%s' % ('' if nr == 2 else '3', pat), tier='quick' if (nr == 2 and pat in ('11', '10')) else 'thorough', functions=[RS + 'map', BE + 'RC_IUPAC'], inst='u64',
           needs_parts=['ska_ref/common', 'merge_ska_dict/common', 'ska_dict/acc'], caps={'MCAP': 2, 'SCAP': 1, 'RCAP': nr, 'CCAP': 2}, models=['hashbrown', 'ndarray'],
           sym='%d reference k-mers with symbolic identity (3-value universe) and strand flag; dictionary of 2 keys x 2 samples with symbolic cells; key presence concrete (%s)' % (nr, pat),
           oracle='rows appended in reference order for present keys only; bases complemented iff reference k-mer is reverse strand; positions and names copied', bounds='%d reference k-mers, 2 keys, 2 samples' % nr, timeout=3600, mem_gb=20 if nr == 3 else 14,
           dead_witnesses=['all reference k-mers matched', 'single match on the reverse strand'] if pat == '00' else ['nothing matched'])
ob('C04.map.refuse', ['C04'], 'ska_ref/map', 'map_refuses_other_k', functions=[RS + 'map'], inst='u64', needs_parts=['ska_ref/common', 'merge_ska_dict/common', 'ska_dict/acc'], caps={'MCAP': 2, 'SCAP': 1, 'RCAP': 1, 'CCAP': 1}, models=['hashbrown', 'ndarray'],
   sym='-', oracle='panic reachable, return not', bounds='-', timeout=900, mem_gb=8, expected_fail=['in function ska_ref::RefSka::<u64>::map'])
# ------------------------------------------------------------------ C13.weed
# (weed_*_twice_2x2 -- weeding a second time changes nothing -- exhausts 16 GB and is not registered)
for nm in ('forward', 'reverse'):
    ob('C13.weed.' + nm, ['C13', 'C10'], 'merge_ska_array/weed', 'weed_%s_2x2' % nm, tier='thorough' if 'twice' in nm else 'quick', functions=[MA + 'weed', RS + 'kmer_iter'], inst='u64', needs_parts=['merge_ska_array/common', 'ska_ref/common'],
       caps={'RCAP': 2, 'CCAP': 2, 'SCAP': 2, 'MCAP': 1}, models=['ndarray', 'hashbrown'], sym='2 x 2 table with two different k-mers of a 3-value universe; weed list of 0..=2 values (duplicates allowed)',
       oracle='kept rows = rows whose k-mer is (not) in the weed set, in order, bases/counts/k-mers aligned; names unchanged; idempotent', bounds='2 k-mers, 2 samples, weed list <= 2', timeout=3600, mem_gb=16)

# ------------------------------------------------------------------ generic_modes wrappers
GM = 'src/generic_modes.rs::'
ob('C06.thr', ['C06', 'C14', 'C03'], 'generic_modes/wrap', 'apply_filters_threshold_c4', functions=[GM + 'apply_filters', MA + 'filter'], inst='u64', needs_parts=['merge_ska_array/common'], caps={'RCAP': 1, 'CCAP': 4, 'SCAP': 1, 'MCAP': 1}, models=['ndarray'],
   sym='min_freq: any f64 in [0,1]; one row of 4 symbols over {A,C,G,T,-}', oracle='row emitted iff present in >= ceil(4 x min_freq) samples (IEEE double arithmetic, the CLI\'s own)', bounds='4 samples', timeout=1800, mem_gb=12)
def dw_dead(c, pm, f2):
    npres = bin(pm).count('1')
    passes = npres >= (c * f2 + 1) // 2
    dead = []
    if not (passes and npres == c):
        dead.append('a constant site')
    if passes:
        dead.append('a k-mer below the frequency threshold')
    else:
        dead.append('a variable site')
    return dead


for c, pats in ((2, (1, 2, 3)), (3, (1, 5, 6, 7))):
    for pm in pats:
        for f2 in (0, 1, 2):
            for amb in (False, True):
                # with the ambiguity filter on, only the min_freq = 0 configurations at 2 samples finish (650-950 s);
                # the others exhaust 40 GB (three recounting filter passes) and are not registered
                if amb and not (c == 2 and f2 == 0 and pm in (1, 3)):
                    continue
                an = 'ambig' if amb else 'noambig'
                quick = (c, pm, f2, amb) in ((2, 2, 2, False), (2, 3, 1, False), (3, 5, 1, False), (3, 7, 2, False))
                ob('C14.wrap.c%d.p%d.f%d.%s' % (c, pm, f2, an), ['C14'], 'generic_modes/wrap', 'dist_wrap_c%d_p%d_f%d_%s' % (c, pm, f2, an), tier='quick' if quick else 'thorough',
                   functions=[GM + 'distance', GM + 'apply_filters', MA + 'filter', MA + 'update_counts'], inst='u64', needs_parts=['merge_ska_array/common'], caps={'RCAP': 1, 'CCAP': c, 'SCAP': c, 'MCAP': 1}, models=['ndarray', 'hashbrown', 'rayon (pool)'],
                   stubs=['MergeSkaArray::distance -> recorder that compares (constant, rows) with the expectation and ends the path (environment stub)', 'io_utils::set_ostream -> in-memory sink (environment stub)', 'update_counts(false) -> identity on arrays with exact counts (lemma C06.cnt; noambig configurations only)'],
                   sym='one row x %d samples: bases symbolic over {A,C,G,T}, presence pattern concrete (mask %d); min_freq = %s; filter ambiguous = %s' % (c, pm, f2 / 2.0, amb),
                   oracle='recorded constant = constant sites among k-mers passing the frequency threshold; table handed on = k-mers passing it and not constant',
                   bounds='1 k-mer, %d samples' % c, timeout=7200 if amb else 3600, mem_gb=40 if amb else 20, mem_expect_gb=30 if amb else 5,
                   dead_witnesses=dw_dead(c, pm, f2))

# ------------------------------------------------------------------ C08.wrap / C13.wrap / C10.A / C05.ref
ob('C08.wrap', ['C08', 'C10'], 'generic_modes/wrap', 'delete_wrapper_2x3', functions=[GM + 'delete', MA + 'delete_samples', MA + 'update_counts'], inst='u64', needs_parts=['merge_ska_array/common'], caps=CAP23, models=['ndarray', 'hashbrown'],
   stubs=['MergeSkaArray::save -> Ok(()) + call counter (environment stub)'], sym='2 x 3 table over the 16 stored symbols; sample b deleted', oracle='returns => saved exactly once, after the deletion; saved array = remaining samples',
   bounds='3 samples, 2 k-mers', timeout=2400, mem_gb=14)
for f10 in (0, 9):
    ob('C13.wrap.minfreq%s' % ('0' if f10 == 0 else '0.9'), ['C13', 'C10'], 'generic_modes/wrap', 'weed_wrapper_minfreq0' + ('' if f10 == 0 else '9'), functions=[GM + 'weed', MA + 'filter'], inst='u64', needs_parts=['merge_ska_array/common'], family='C13.wrap',
       caps=CAP23 if f10 == 0 else {'RCAP': 1, 'CCAP': 3, 'SCAP': 3, 'MCAP': 1}, models=['ndarray', 'hashbrown'], stubs=['MergeSkaArray::save -> Ok(()) + call counter (environment stub)'], sym='2 x 3 (min_freq 0) or 1 x 3 (min_freq 0.9) table over the 16 stored symbols; no weed file; min_freq = %s; no site filter, no masks' % (f10 / 10.0),
       oracle='threshold floor(samples x min_freq): min_freq 0 => table saved unchanged; 0.9 => k-mers below 2 of 3 samples dropped; saved exactly once', bounds='3 samples, 2 k-mers', timeout=2400, mem_gb=14)
for (nm, fn) in [('noconst', 'c10_filter_noconst'), ('nofilter.uk', 'c10_filter_nofilter_uk'), ('noambigorconst.am', 'c10_filter_noambigorconst_am'), ('noambig', 'c10_filter_noambig')]:
    ob('C10.A.' + nm, ['C10'], 'merge_ska_array/c10', fn, tier='quick' if nm in ('noconst', 'nofilter.uk') else 'thorough', functions=[MA + 'filter', MA + 'update_counts'], inst='u64', needs_parts=['merge_ska_array/common'],
       caps={'RCAP': 1, 'CCAP': 3, 'SCAP': 3, 'MCAP': 1}, models=['ndarray', 'hashbrown'], sym='one row x 3 samples over the 16 stored symbols, threshold 0..=3, arbitrary stored count 0..=3 vs the fresh-build count',
       oracle='identical result (emitted rows, removed count, saved table) whatever count was stored', bounds='1 k-mer, 3 samples, flags: ' + nm, timeout=2400, mem_gb=14)
ob('C05.ref', ['C05'], 'ska_ref/vcf', 'u8_to_base_all_bytes', functions=['src/ska_ref.rs::u8_to_base'], needs_parts=['ska_ref/common'], sym='byte (256)', oracle='A/C/G/T map to themselves, everything else to N', bounds='complete domain', timeout=600, mem_gb=8)

# C07.wrap (generic_modes::merge with a load provider and a save recorder) is NOT registered: out of memory at 16 GB after 249 s
# (harness and stub lines kept in /verif/attic/c07_wrap_*).
# ------------------------------------------------------------------ C12.cnt
BF = 'src/ska_dict/bloom_filter.rs::KmerFilter::'
for n, tier in ((3, 'quick'), (4, 'thorough')):
    ob('C12.cnt.%d' % n, ['C12'], 'bloom_filter/cnt', 'cnt_never_lost_%d' % n, tier=tier, functions=[BF + 'filter', BF + 'bloom_add_and_check', BF + 'fingerprint', BF + 'location', SK + 'new', SK + 'get_hash'] + NTF, inst='u64',
       caps={'MCAP': 2, 'SCAP': 1, 'RCAP': 1, 'CCAP': 1}, models=['hashbrown'], stubs=['KmerFilter built directly with a Bloom buffer of 4 words (init not executed)'],
       sym='%d sightings of one k-mer (each as read or reverse complement), min_count 1..=%d, strand mode, optionally one earlier sighting of an arbitrary other k-mer' % (n, n),
       oracle='never lost: Equal at or before the min_count-th sighting; exact at the min_count-th sighting when no other k-mer is in the filter', bounds='k=5, %d sightings' % n, timeout=3600, mem_gb=16)

# ------------------------------------------------------------------ C04.case / C04.ref (RefSka::new through the needletail model)
REFNEW = [RS + 'new', RS + 'track_repeats'] + WINF
for (nm, fn, tier, tmo) in [('l5', 'ref_new_l5', 'quick', 1800), ('l6n', 'ref_new_l6_n', 'quick', 3600), ('l6', 'ref_new_l6', 'thorough', 3600), ('l7n', 'ref_new_l7_n', 'thorough', 7200)]:
    ob('C04.case.' + nm, ['C04', 'C05', 'C13'], 'ska_ref/new', fn, tier=tier, functions=REFNEW, inst='u64', needs_parts=['ska_ref/common', 'split_kmer/common'], caps={'MCAP': 1, 'SCAP': 3, 'RCAP': 1, 'CCAP': 1},
       models=['needletail (in-memory records)', 'hashbrown', 'ndarray'], stubs=['core::str::from_utf8 -> unchecked (kani::stub)'], sym='one contig of %s bases in either case%s, strand mode' % (nm[1], ' with N' if 'n' in nm[2:] else ''),
       oracle='k-mer list = window specification with centres ascending and strand flags; stored reference is upper-case; contig name', bounds='k=5, ' + nm, timeout=tmo, mem_gb=20, mem_expect_gb=10,
       dead_witnesses=[] if 'n' in nm[2:] else ['first window invalid, a later one indexed'])
# C04.ref.mid (ref_new_repeats_mid_5_1_5 / _5_6: concrete arms, symbolic middle bases, repeat mask on) is NOT registered: stopped after
# 2700 s of symbolic execution without a verdict (harnesses kept in harness/ska_ref/new.rs)
# the general C04.ref (every base symbolic) is NOT registered: three contigs of 11-12 bases with repeat tracking did
# not finish in 2 h (ref_new_repeats_* harnesses are kept in harness/ska_ref/new.rs for reference)

# ------------------------------------------------------------------ C11 (sequential model: merge tree and pool initialisation)
TREEF = ['src/merge_ska_dict.rs::build_and_merge', 'src/merge_ska_dict.rs::parallel_append', 'src/merge_ska_dict.rs::multi_append', MD + 'merge', MD + 'append']
# (tree_n11_t16, tree_n20_t4, tree_n30_t4, tree_n30_t16 did not finish in 60 min -- cloning of 11..30 sample names dominates --
#  and are not registered; merge depth >= 1 with a non-zero offset is covered at small size by C11.tree.offset)
for (n, t, tier, tmo) in [(3, 1, 'quick', 1800), (3, 4, 'quick', 1800), (10, 1, 'thorough', 3600), (10, 2, 'thorough', 5400)]:
    ob('C11.tree.n%d.t%d' % (n, t), ['C11'], 'merge_ska_dict/tree', 'tree_n%d_t%d' % (n, t), tier=tier, functions=TREEF, inst='u64', needs_parts=['merge_ska_dict/common', 'ska_dict/acc'],
       caps={'MCAP': 2, 'SCAP': 1, 'RCAP': 1, 'CCAP': 1}, models=['hashbrown', 'rayon (sequential join, pool flag)', 'indicatif'], stubs=['SkaDict::new -> dictionary provider: one symbolic (k-mer, base) entry per sample (environment stub)'],
       sym='%d samples, each with one k-mer of a 2-key universe and a symbolic base; strand mode; threads = %d' % (n, t), oracle='names in input order; every key vector = the serial table (own base in own column, 0 elsewhere)',
       bounds='%d samples, threads=%d (merge depth %s)' % (n, t, {(3, 1): 0, (3, 4): 0, (10, 1): 0, (10, 2): 1, (11, 16): 1, (20, 4): 1, (30, 4): 2, (30, 16): 2}[(n, t)]), timeout=tmo, mem_gb=24, mem_expect_gb=10)

for t in (1, 2):
    ob('C11.pool.map.t%d' % t, ['C11'], 'ska_ref/pool', 'map_after_build_t%d' % t, functions=['src/merge_ska_dict.rs::build_and_merge', RS + 'pseudoalignment', AW + 'write_split_kmer', AW + 'finalise'], inst='u64',
       needs_parts=['ska_ref/common'], caps={'MCAP': 2, 'SCAP': 1, 'RCAP': 1, 'CCAP': 2}, models=['hashbrown', 'ndarray', 'rayon (sequential; build_global fails the second time)', 'needletail::write_fasta'],
       stubs=['SkaDict::new -> dictionary provider (environment stub)', 'AlnWriter::write_split_kmer / finalise -> no-op (environment stub)'], sym='reference of 6 symbolic bases; two samples sharing the reference k-mer (concrete middle bases); threads = %d' % t,
       oracle='the build -> (mapped state) -> pseudoalignment sequence completes (no panic) with one aligned sequence per sample', bounds='reference of 6 bases, k=5, 2 samples', timeout=3600, mem_gb=20, mem_expect_gb=8)

for (p0, p1) in [(0, 0), (0, 1), (0, 2), (0, 3), (1, 1), (1, 2), (1, 3), (2, 2), (2, 3), (3, 3)]:
    ob('C11.merge.p%d%d' % (p0, p1), ['C11', 'C01'], 'merge_ska_dict/merge', 'merge_p%d%d' % (p0, p1), tier='quick' if (p0, p1) in ((1, 3), (0, 2), (2, 3)) else 'thorough', functions=[MD + 'merge'], inst='u64',
       needs_parts=['merge_ska_dict/common', 'ska_dict/acc'], caps={'MCAP': 2, 'SCAP': 1, 'RCAP': 1, 'CCAP': 1}, models=['hashbrown'],
       sym='two partial tables of one 3-sample build (sample 0 | samples 1,2) over a 2-key universe; bases symbolic; presence pattern concrete (key0=%d, key1=%d; 1=self 2=other 3=both)' % (p0, p1),
       oracle='every sample keeps its own base for every key of the union; names of both tables survive; no other entry', bounds='3 samples, 2 keys', timeout=1500, mem_gb=12)

# ------------------------------------------------------------------ C16 / C12: sliding read hash across an N
for k, tier in ((5, 'quick'), (7, 'thorough')):
    ob('C16.hash.win.k%d' % k, ['C16', 'C12'], 'split_kmer/hash', 'hash_across_n_k%d' % k, tier=tier, functions=WINF + [SK + 'get_hash'] + NTF, inst='u64', needs_parts=['split_kmer/common'],
       sym='read = k bases, N, k+1 bases (bases and case symbolic, N position concrete), strand mode', oracle='at each of the three windows: sliding hash = NtHashIterator::new(window); position; content',
       bounds='k=%d' % k, timeout=2400, mem_gb=24, mem_expect_gb=10)

for (nm, fn, tier) in [('first', 'c10_delete_first', 'thorough'), ('middle', 'c10_delete_middle', 'quick'), ('last', 'c10_delete_last', 'thorough')]:
    ob('C10.A.delete.' + nm, ['C10', 'C08'], 'merge_ska_array/c10', fn, tier=tier, functions=[MA + 'delete_samples', MA + 'update_counts'], inst='u64', needs_parts=['merge_ska_array/common'],
       caps={'RCAP': 1, 'CCAP': 3, 'SCAP': 3, 'MCAP': 1}, models=['ndarray', 'hashbrown'], sym='one row x 3 samples over the 16 stored symbols; arbitrary positive stored count; the %s sample deleted' % nm,
       oracle='row kept iff a remaining sample has a base, with the recomputed count, whatever count was stored', bounds='1 k-mer, 3 samples', timeout=2400, mem_gb=12)

ob('C11.tree.offset', ['C11'], 'merge_ska_dict/tree', 'parallel_append_depth2_offset2', functions=['src/merge_ska_dict.rs::parallel_append', 'src/merge_ska_dict.rs::multi_append', MD + 'merge', MD + 'append'], inst='u64',
   needs_parts=['merge_ska_dict/common', 'ska_dict/acc'], caps={'MCAP': 2, 'SCAP': 1, 'RCAP': 1, 'CCAP': 1}, models=['hashbrown', 'rayon (sequential join)'], stubs=['SkaDict::new -> dictionary provider (environment stub)'],
   sym='4 samples that are samples 2..6 of a 6-sample build, one k-mer of a 2-key universe and a symbolic base each; strand mode; recursion depth 2 with offset 2',
   oracle='every sample lands in its own column and name slot (the situation of merge depth >= 3, i.e. >= 70 files with >= 8 threads, reproduced at small size)', bounds='4 of 6 samples, depth 2, offset 2', timeout=3600, mem_gb=32, mem_expect_gb=12)


# ------------------------------------------------------------------ C12.glue (add_file_kmers on reads)
for (n, m, tier) in [(2, 2, 'thorough')]:
    ob('C12.glue.n%d.m%d' % (n, m), ['C12'], 'ska_dict/reads', 'reads_glue_n%d_m%d' % (n, m), tier=tier, functions=[SD + 'new', SD + 'add_file_kmers', SD + 'add_to_dict', BF + 'filter', BF + 'bloom_add_and_check'] + WINF + [SK + 'middle_base_qual', SK + 'valid_qual'] + NTF,
       inst='u64', needs_parts=['ska_dict/acc', 'split_kmer/common'], caps={'MCAP': 2, 'SCAP': 1, 'RCAP': 1, 'CCAP': 1}, models=['needletail (in-memory FASTQ records)', 'hashbrown'],
       stubs=['KmerFilter::init -> 4-word Bloom buffer (environment stub)', 'core::str::from_utf8 -> unchecked (kani::stub)'],
       sym='%d copies of one read of 6 symbolic bases, symbolic middle-base qualities per copy, strand mode; min-count %d, min-qual 20, middle rule; the two k-mers of the read assumed to fall into different Bloom blocks' % (n, m),
       oracle='each split k-mer included exactly when seen min-count times with a passing middle base', bounds='k=5, one FASTQ file, %d reads of 6 bases' % n, timeout=7200, mem_gb=40, mem_expect_gb=20,
       dead_witnesses=['second window reaches the count although its last sighting fails'] if n == 2 else [])

# ------------------------------------------------------------------ C05.vcf (write_vcf on an arbitrary mapped alignment)
# NOT registered: harness/ska_ref/vcfw.rs drives RefSka::write_vcf with an arbitrary alignment (alignment provider stub) against
# the recording noodles_vcf model (models/noodles_vcf.rs). Even 1 sample x 1 position exhausts 24 GB (CBMC dies while converting,
# 213-1040 s); write_vcf therefore stays outside the C05 claim. The harness part is not compiled by any registered obligation.
