//! Replay shim: the real hashbrown (native replay of counterexamples runs against the real library).
pub use ::hashbrown::*;
pub use super::bounds::{MCAP, SCAP};
