//! Replay shim: the real indicatif.
pub use ::indicatif::*;
