//! Replay shim: the real ndarray.
pub use ::ndarray::*;
pub use super::bounds::{CCAP, RCAP};
