//! Replay shim: the real rayon. The harness-side helpers of the sequential model become no-ops.
pub use ::rayon::*;
pub fn model_pool_reset() {}
pub fn model_pool_built() -> bool { false }
