//! Replay shim: the real needletail. The in-memory "files" of the model become real temporary
//! FASTA/FASTQ files, so that ska's real parser path is exercised natively.
pub use ::needletail::*;
use std::io::Write;

#[derive(Clone, Debug)]
pub struct ModelRecord { pub id: &'static [u8], pub seq: Vec<u8>, pub qual: Option<Vec<u8>> }
#[derive(Clone, Debug)]
pub struct ModelFile { pub path: &'static str, pub records: Vec<ModelRecord> }

fn dir() -> std::path::PathBuf {
    let d = std::env::temp_dir().join(format!("ska_verif_replay_{}", std::process::id()));
    std::fs::create_dir_all(&d).unwrap();
    d
}
/// path under which the harness must name a registered file when calling ska
pub fn vfs_path(name: &str) -> String { dir().join(name).to_str().unwrap().to_string() }
pub fn vfs_set(files: Vec<ModelFile>) {
    for f in files {
        let mut w = std::fs::File::create(vfs_path(f.path)).unwrap();
        for r in &f.records {
            match &r.qual {
                None => { w.write_all(b">").unwrap(); w.write_all(r.id).unwrap(); w.write_all(b"\n").unwrap(); w.write_all(&r.seq).unwrap(); w.write_all(b"\n").unwrap(); }
                Some(q) => { w.write_all(b"@").unwrap(); w.write_all(r.id).unwrap(); w.write_all(b"\n").unwrap(); w.write_all(&r.seq).unwrap(); w.write_all(b"\n+\n").unwrap(); w.write_all(q).unwrap(); w.write_all(b"\n").unwrap(); }
            }
        }
    }
}
