//! C05.ref: reference byte -> VCF REF base.
use super::super::*;

#[kani::proof]
fn u8_to_base_all_bytes() {
    let x: u8 = kani::any();
    let b = u8_to_base(x);
    let exp = match x { b'A' => Base::A, b'C' => Base::C, b'G' => Base::G, b'T' => Base::T, _ => Base::N };
    assert!(b == exp, "A/C/G/T map to themselves, everything else to N");
    kani::cover!(x == b'a' && b == Base::N, "lower-case reference base becomes N");
}
