//! C11.pool: raising the thread count never turns a succeeding command into a failing one: the call
//! sequence of `ska map ref a.fa b.fa --threads T` (build from sequence files, then map and write the
//! alignment) initialises the global thread pool in `build_and_merge` and again in `pseudoalignment`.
//! Model: sequential rayon whose `build_global()` fails the second time (rayon's documented contract).
use super::super::*;
use super::common::*;
use crate::verif_support::*;
use crate::merge_ska_dict::{build_and_merge, InputFastx};
use crate::{QualFilter, QualOpts};

fn map_after_build(threads: usize) {
    crate::verif_models::rayon::model_pool_reset();
    // sample middle bases are concrete (a symbolic base forks the writer at every `base != '-'` test and the
    // writer is C04's subject); the reference bases, which are only copied, stay symbolic
    provide_entry(0, 10, b'A');
    provide_entry(1, 10, b'C');
    dict_provider(true);
    let mut refseq = [0u8; 6];
    let mut i = 0;
    while i < 6 { refseq[i] = any_upper_base(); i += 1; }
    let files: Vec<InputFastx> = vec![("s0".to_string(), "a.fa".to_string(), None), ("s1".to_string(), "b.fa".to_string(), None)];
    let qual = QualOpts { min_count: 1, min_qual: 0, qual_filter: QualFilter::NoFilter };
    let dict = build_and_merge::<u64>(&files, 5, true, &qual, threads, None);
    assert!(dict.nsamples() == 2 && dict.ksize() == 1, "both samples built");
    // the mapped state is constructed directly (RefSka::map is C04.map's subject; going through it makes the
    // number of mapped rows symbolic for CBMC and the writer loops explode)
    let mut r = mk_ref(5, vec![ref_kmer(10, 0, 2, 0, false)], vec![refseq.to_vec()], vec!["c1".to_string()], Vec::new(), false);
    r.mapped_names = vec!["s0".to_string(), "s1".to_string()];
    r.mapped_pos = vec![(0, 2)];
    r.mapped_variants = Array2::from_shape_vec((1, 2), vec![b'A', b'C']).unwrap();
    // write_aln = pseudoalignment + FASTA text; the pool is initialised (again) in pseudoalignment.
    // The writer calls are switched off: only the control flow around the pool is the subject here.
    writer_stub(true);
    let aln = r.pseudoalignment(threads);
    assert!(aln.len() == 2, "one aligned sequence per sample");
    kani::cover!(true, "the command sequence completes");
    std::mem::forget(aln); std::mem::forget(dict); std::mem::forget(files);
}
#[kani::proof]
#[kani::unwind(12)]
fn map_after_build_t1() { map_after_build(1); }
#[kani::proof]
#[kani::unwind(12)]
fn map_after_build_t2() { map_after_build(2); }
