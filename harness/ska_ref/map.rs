//! C04.map: `RefSka::map` appends, in reference order, one row per reference k-mer present in the
//! dictionary; bases are complemented through RC_IUPAC iff the reference k-mer is on the reverse strand.
use super::super::*;
use super::common::*;
use crate::verif_support::*;
use crate::merge_ska_dict::verif_harness::common::{merged_dict, KEYS};

fn any_cell() -> u8 {
    let c: u8 = kani::any();
    kani::assume(matches!(c, b'A' | b'C' | b'G' | b'T' | b'-' | b'N' | b'R' | b'Y' | b'S' | b'W' | b'K' | b'M' | b'B' | b'D' | b'H' | b'V'));
    c
}
fn spec_rc(x: u8) -> u8 {
    if x == b'-' { return b'-'; }
    let s = spec_set(x).unwrap();
    let c = ((s & 0b0001) << 3) | ((s & 0b1000) >> 3) | ((s & 0b0010) << 1) | ((s & 0b0100) >> 1);
    spec_code(c)
}

/// P0/P1: whether key 0 / key 1 are in the dictionary (concrete per harness); 3 reference k-mers with
/// symbolic identity (from a 3-value universe, so repeats in the reference are included) and strand
fn map_case<const P0: bool, const P1: bool, const NR: usize>() {
    const NS: usize = 2;
    let pres = [P0, P1];
    let mut vecs = [[0u8; NS]; 2];
    let mut i = 0;
    while i < 2 { let mut j = 0; while j < NS { vecs[i][j] = any_cell(); j += 1; } i += 1; }
    let dict = merged_dict::<2, NS>(7, true, ["s0", "s1"], &pres, &vecs);
    let mut which = [0usize; NR];
    let mut strand = [false; NR];
    let mut kms: Vec<RefKmer<u64>> = Vec::with_capacity(NR);
    let mut t = 0;
    while t < NR {
        let w: usize = kani::any();
        kani::assume(w < 3);
        which[t] = w;
        strand[t] = kani::any();
        kms.push(ref_kmer(KEYS[w], 0, 3 + t, 0, strand[t]));
        t += 1;
    }
    let mut r = mk_ref(7, kms, vec![vec![b'A'; 12]], vec!["c".to_string()], Vec::new(), false);
    r.map(&dict);
    let mut out = 0;
    let mut t = 0;
    while t < NR {
        let w = which[t];
        if w < 2 && pres[w] {
            assert!(out < mapped_rows(&r), "reference k-mer present in the samples gets a row, in reference order");
            let mut j = 0;
            while j < NS {
                let exp = if strand[t] { spec_rc(vecs[w][j]) } else { vecs[w][j] };
                assert!(mapped_at(&r, out, j) == exp, "base strand-corrected iff the reference k-mer is on the reverse strand");
                j += 1;
            }
            assert!(mapped_pos_at(&r, out) == (0, 3 + t), "row carries the reference position of its k-mer");
            out += 1;
        }
        t += 1;
    }
    assert!(mapped_rows(&r) == out && mapped_pos_len(&r) == out, "no row for reference k-mers absent from the samples");
    assert!(n_mapped_names(&r) == NS && mapped_name(&r, 0).as_bytes() == b"s0" && mapped_name(&r, 1).as_bytes() == b"s1", "sample names copied in order");
    if P0 || P1 { kani::cover!(out == NR, "all reference k-mers matched"); kani::cover!(out == 1 && strand[0], "single match on the reverse strand"); }
    else { kani::cover!(out == 0, "nothing matched"); }
    std::mem::forget(r); std::mem::forget(dict);
}
#[kani::proof]
#[kani::unwind(8)]
fn map_p11() { map_case::<true, true, 2>(); }
#[kani::proof]
#[kani::unwind(8)]
fn map3_p11() { map_case::<true, true, 3>(); }
#[kani::proof]
#[kani::unwind(8)]
fn map_p10() { map_case::<true, false, 2>(); }
#[kani::proof]
#[kani::unwind(8)]
fn map3_p10() { map_case::<true, false, 3>(); }
#[kani::proof]
#[kani::unwind(8)]
fn map_p01() { map_case::<false, true, 2>(); }
#[kani::proof]
#[kani::unwind(8)]
fn map3_p01() { map_case::<false, true, 3>(); }
#[kani::proof]
#[kani::unwind(8)]
fn map_p00() { map_case::<false, false, 2>(); }
#[kani::proof]
#[kani::unwind(8)]
fn map3_p00() { map_case::<false, false, 3>(); }

/// refusal: dictionary built with another k
#[kani::proof]
#[kani::unwind(8)]
fn map_refuses_other_k() {
    let vecs = [[b'A'; 1]; 2];
    let dict = merged_dict::<2, 1>(9, true, ["s0"], &[true, false], &vecs);
    let mut r = mk_ref(7, vec![ref_kmer(10, 0, 3, 0, false)], vec![vec![b'A'; 12]], vec!["c".to_string()], Vec::new(), false);
    kani::cover!(true, "call reached");
    r.map(&dict);
    assert!(false, "must-not-reach: map returned although k differs");
}
