//! Builders for `RefSka` (state constructed directly; private fields are visible to this child module).
#![allow(dead_code)]
use super::super::*;

pub(crate) fn mk_ref(k: usize, kmers: Vec<RefKmer<u64>>, seq: Vec<Vec<u8>>, names: Vec<String>, repeat_coors: Vec<usize>, ambig_mask: bool) -> RefSka<u64> {
    RefSka::<u64> { k, split_kmer_pos: kmers, ambig_mask, chrom_names: names, seq, repeat_coors, mapped_pos: Vec::new(), mapped_variants: Array2::zeros((0, 0)), mapped_names: Vec::new() }
}
pub(crate) fn ref_kmer(kmer: u64, base: u8, pos: usize, chrom: usize, rc: bool) -> RefKmer<u64> { RefKmer { kmer, base, pos, chrom, rc } }
pub(crate) fn mapped_rows(r: &RefSka<u64>) -> usize { r.mapped_variants.nrows() }
pub(crate) fn mapped_at(r: &RefSka<u64>, i: usize, j: usize) -> u8 { r.mapped_variants[[i, j]] }
pub(crate) fn mapped_pos_at(r: &RefSka<u64>, i: usize) -> (usize, usize) { r.mapped_pos[i] }
pub(crate) fn mapped_pos_len(r: &RefSka<u64>) -> usize { r.mapped_pos.len() }
pub(crate) fn mapped_name(r: &RefSka<u64>, j: usize) -> &String { &r.mapped_names[j] }
pub(crate) fn n_mapped_names(r: &RefSka<u64>) -> usize { r.mapped_names.len() }
