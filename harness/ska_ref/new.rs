//! C04.case / C04.ref / C13.set: `RefSka::new` indexes a reference: k-mer list = window specification with
//! centres ascending and strand flags; the stored reference is upper-case; repeat coordinates are exactly the
//! absolute positions within h of the centre of a split k-mer that occurs more than once.
use super::super::*;
use super::common::*;
use crate::verif_support::*;
use crate::verif_models::needletail::{vfs_path, vfs_set, ModelFile, ModelRecord};
use crate::ska_dict::split_kmer::verif_harness::common::{spec_window, window_has_n};

const K: usize = 5;
const H: usize = 2;

// Kani-only stubs for the contig-name parsing (UTF-8 validation and Unicode whitespace search over the
// record id cost > 400 s of symbolic execution and are not what C04 is about): ids registered by the
// harness are ASCII without blanks; the UTF-8 check is skipped under Kani (names are not asserted).
fn stub_from_utf8(v: &[u8]) -> Result<&str, std::str::Utf8Error> { Ok(unsafe { std::str::from_utf8_unchecked(v) }) }

/// one contig of L bases (either case, optional N), k=5
fn ref_new_one_contig<const L: usize, const WITH_N: bool>() {
    let mut seq = [0u8; L];
    let mut i = 0;
    while i < L { seq[i] = if WITH_N { any_nt() } else { any_base() }; i += 1; }
    vfs_set(vec![ModelFile { path: "ref.fa", records: vec![ModelRecord { id: b"c1", seq: seq.to_vec(), qual: None }] }]);
    let rc: bool = kani::any();
    let mut n_spec = 0;
    let mut s = 0;
    while s + K <= L { if !window_has_n(&seq, s, K, K) { n_spec += 1; } s += 1; }
    kani::assume(n_spec >= 1); // a reference without any split k-mer is refused (panic), not part of this obligation
    let r = RefSka::<u64>::new(K, &vfs_path("ref.fa"), rc, false, false);
    assert!(r.split_kmer_pos.len() == n_spec, "one entry per N-free window");
    let mut out = 0;
    let mut s = 0;
    while s + K <= L {
        if !window_has_n(&seq, s, K, K) {
            let (ek, eb, er) = spec_window(&seq, s, K, rc, K);
            let e = &r.split_kmer_pos[out];
            assert!(e.kmer as u128 == ek && e.base == eb && e.rc == er, "reference k-mer = window specification (canonical k-mer, middle base, strand)");
            assert!(e.pos == s + H && e.chrom == 0, "centre position, ascending");
            out += 1;
        }
        s += 1;
    }
    assert!(r.seq.len() == 1 && r.seq[0].len() == L, "reference sequence stored");
    let mut i = 0;
    while i < L { assert!(r.seq[0][i] == upper(seq[i]), "stored reference base is upper-case"); i += 1; }
    assert!(r.chrom_names.len() == 1, "one contig name");
    kani::cover!(n_spec == L - K + 1 && seq[0] == b'a', "all windows valid, lower-case first base");
    kani::cover!(WITH_N && is_n(seq[0]) && n_spec >= 1, "first window invalid, a later one indexed");
    std::mem::forget(r);
}
#[kani::proof]
#[kani::stub(core::str::from_utf8, stub_from_utf8)]
#[kani::unwind(8)]
fn ref_new_l5() { ref_new_one_contig::<5, false>(); }
#[kani::proof]
#[kani::stub(core::str::from_utf8, stub_from_utf8)]
#[kani::unwind(9)]
fn ref_new_l6_n() { ref_new_one_contig::<6, true>(); }
#[kani::proof]
#[kani::stub(core::str::from_utf8, stub_from_utf8)]
#[kani::unwind(9)]
fn ref_new_l6() { ref_new_one_contig::<6, false>(); }
#[kani::proof]
#[kani::stub(core::str::from_utf8, stub_from_utf8)]
#[kani::unwind(10)]
fn ref_new_l7_n() { ref_new_one_contig::<7, true>(); }

/// three contigs (L0, L1, L2), single strand, repeat mask on
fn ref_new_repeats<const L0: usize, const L1: usize, const L2: usize, const T: usize>() {
    let lens = [L0, L1, L2];
    let starts = [0, L0, L0 + L1];
    let mut flat = [0u8; T];
    let mut i = 0;
    while i < T { flat[i] = any_upper_base(); i += 1; }
    vfs_set(vec![ModelFile { path: "ref.fa", records: vec![
        ModelRecord { id: b"c1", seq: flat[0..L0].to_vec(), qual: None },
        ModelRecord { id: b"c2", seq: flat[L0..L0 + L1].to_vec(), qual: None },
        ModelRecord { id: b"c3", seq: flat[L0 + L1..T].to_vec(), qual: None }] }]);
    let r = RefSka::<u64>::new(K, &vfs_path("ref.fa"), false, false, true);
    // specification: list of (contig, start) windows in order
    let mut keys = [0u128; T];
    let mut cen = [0usize; T]; // absolute centre
    let mut n = 0;
    let mut c = 0;
    while c < 3 {
        let mut s = 0;
        while s + K <= lens[c] {
            let (ek, _eb, _er) = spec_window(&flat[starts[c]..starts[c] + lens[c]], s, K, false, K);
            assert!(n < r.split_kmer_pos.len(), "window indexed");
            let e = &r.split_kmer_pos[n];
            assert!(e.kmer as u128 == ek && e.chrom == c && e.pos == s + H, "reference k-mer list = windows of every contig in order");
            keys[n] = ek; cen[n] = starts[c] + s + H;
            n += 1;
            s += 1;
        }
        c += 1;
    }
    assert!(r.split_kmer_pos.len() == n, "no other entry");
    // expected mask: absolute positions within H of the centre of a k-mer that occurs more than once
    let mut exp = [false; T];
    let mut any_rep = false;
    let mut a = 0;
    while a < T {
        if a < n {
            let mut twice = false;
            let mut b = 0;
            while b < T { if b < n && b != a && keys[b] == keys[a] { twice = true; } b += 1; }
            if twice { any_rep = true; let mut d = 0; while d <= 2 * H { exp[cen[a] - H + d] = true; d += 1; } }
        }
        a += 1;
    }
    let mut got = [false; T];
    let mut last = 0;
    let mut q = 0;
    while q < r.repeat_coors.len() {
        let p = r.repeat_coors[q];
        assert!(p < T, "repeat coordinate inside the concatenated reference");
        if q > 0 { assert!(p > last, "repeat coordinates ascending, each once"); }
        got[p] = true; last = p;
        q += 1;
    }
    let mut p = 0;
    while p < T { assert!(got[p] == exp[p], "repeat mask = positions within (k-1)/2 of the centre of a repeated split k-mer"); p += 1; }
    kani::cover!(any_rep && keys[0] == keys[n - 1], "first and last reference k-mer are the same (repeat across contigs)");
    kani::cover!(!any_rep, "repeat-free reference");
    std::mem::forget(r);
}
#[kani::proof]
#[kani::stub(core::str::from_utf8, stub_from_utf8)]
#[kani::unwind(14)]
fn ref_new_repeats_5_1_6() { ref_new_repeats::<5, 1, 6, 12>(); }
#[kani::proof]
#[kani::stub(core::str::from_utf8, stub_from_utf8)]
#[kani::unwind(14)]
fn ref_new_repeats_6_0_6() { ref_new_repeats::<6, 0, 6, 12>(); }
#[kani::proof]
#[kani::stub(core::str::from_utf8, stub_from_utf8)]
#[kani::unwind(13)]
fn ref_new_repeats_5_1_5() { ref_new_repeats::<5, 1, 5, 11>(); }

/// C04.ref (small): contigs "ACGTA", "G", "ACGTA" with an arbitrary case mask (2^11 inputs): the only split k-mer
/// of contig 1 is repeated on contig 3, contig 2 is shorter than k and has no k-mer at all. The repeat mask must be
/// exactly the absolute positions 0..=4 and 6..=10.
#[kani::proof]
#[kani::stub(core::str::from_utf8, stub_from_utf8)]
#[kani::unwind(13)]
fn ref_new_repeats_case_mask_5_1_5() {
    const T: usize = 11;
    let base = *b"ACGTAGACGTA";
    let mut flat = [0u8; T];
    let mut i = 0;
    while i < T { let lower: bool = kani::any(); flat[i] = if lower { base[i] | 0x20 } else { base[i] }; i += 1; }
    vfs_set(vec![ModelFile { path: "ref.fa", records: vec![
        ModelRecord { id: b"c1", seq: flat[0..5].to_vec(), qual: None },
        ModelRecord { id: b"c2", seq: flat[5..6].to_vec(), qual: None },
        ModelRecord { id: b"c3", seq: flat[6..11].to_vec(), qual: None }] }]);
    let r = RefSka::<u64>::new(K, &vfs_path("ref.fa"), false, false, true);
    assert!(r.split_kmer_pos.len() == 2, "one split k-mer on the first and one on the third contig");
    assert!(r.split_kmer_pos[0].kmer == r.split_kmer_pos[1].kmer, "the same split k-mer (case-insensitive)");
    assert!(r.split_kmer_pos[0].chrom == 0 && r.split_kmer_pos[1].chrom == 2 && r.split_kmer_pos[0].pos == 2 && r.split_kmer_pos[1].pos == 2, "contig and centre");
    let exp = [0usize, 1, 2, 3, 4, 6, 7, 8, 9, 10];
    assert!(r.repeat_coors.len() == exp.len(), "repeat mask covers both windows, nothing else");
    let mut q = 0;
    while q < 10 { assert!(r.repeat_coors[q] == exp[q], "repeat mask = absolute positions within (k-1)/2 of the centre of the repeated split k-mer"); q += 1; }
    kani::cover!(flat[0] == b'a' && flat[10] == b'A', "mixed case");
    std::mem::forget(r);
}

/// C04.ref (small): contigs "AC?TA", "?", "AC?TA": the arms are concrete (so the two split k-mers are the same key and the
/// hash-set path stays concrete), the two middle bases (either case), the single base of the middle contig (any of
/// A/C/G/T/N in either case) and the strand mode are symbolic. The only split k-mer of contig 1 is repeated on contig 3;
/// contig 2 is shorter than k and has no k-mer at all. The repeat mask must be exactly the absolute positions 0..=4 and
/// 6..=10 (within (k-1)/2 of the two centres 2 and 8).
#[kani::proof]
#[kani::stub(core::str::from_utf8, stub_from_utf8)]
#[kani::unwind(13)]
fn ref_new_repeats_mid_5_1_5() {
    const T: usize = 11;
    let mut flat = *b"ACGTAGACGTA";
    flat[2] = any_base();
    flat[8] = any_base();
    flat[5] = any_nt();
    let rc: bool = kani::any();
    vfs_set(vec![ModelFile { path: "ref.fa", records: vec![
        ModelRecord { id: b"c1", seq: flat[0..5].to_vec(), qual: None },
        ModelRecord { id: b"c2", seq: flat[5..6].to_vec(), qual: None },
        ModelRecord { id: b"c3", seq: flat[6..11].to_vec(), qual: None }] }]);
    let r = RefSka::<u64>::new(K, &vfs_path("ref.fa"), rc, false, true);
    assert!(r.split_kmer_pos.len() == 2, "one split k-mer on the first and one on the third contig");
    assert!(r.split_kmer_pos[0].kmer == r.split_kmer_pos[1].kmer, "the same split k-mer");
    assert!(r.split_kmer_pos[0].chrom == 0 && r.split_kmer_pos[1].chrom == 2 && r.split_kmer_pos[0].pos == 2 && r.split_kmer_pos[1].pos == 2, "contig and centre");
    let exp = [0usize, 1, 2, 3, 4, 6, 7, 8, 9, 10];
    assert!(r.repeat_coors.len() == exp.len(), "repeat mask covers both windows, nothing else");
    let mut q = 0;
    while q < 10 { assert!(r.repeat_coors[q] == exp[q], "repeat mask = absolute positions within (k-1)/2 of the centre of the repeated split k-mer"); q += 1; }
    kani::cover!(flat[2] == b'a' && flat[8] == b'T' && is_n(flat[5]), "different middle bases, N on the short contig");
    std::mem::forget(r);
}

/// C04.ref (small, adjacent contigs): contigs "AC?TA", "AC?TAC": three windows, the first two are the same split k-mer;
/// the third ("C?TAC") is different. Repeat mask = 0..=4 and 5..=9.
#[kani::proof]
#[kani::stub(core::str::from_utf8, stub_from_utf8)]
#[kani::unwind(13)]
fn ref_new_repeats_mid_5_6() {
    let mut flat = *b"ACGTAACGTAC";
    flat[2] = any_base();
    flat[7] = any_base();
    vfs_set(vec![ModelFile { path: "ref.fa", records: vec![
        ModelRecord { id: b"c1", seq: flat[0..5].to_vec(), qual: None },
        ModelRecord { id: b"c2", seq: flat[5..11].to_vec(), qual: None }] }]);
    let r = RefSka::<u64>::new(K, &vfs_path("ref.fa"), false, false, true);
    assert!(r.split_kmer_pos.len() == 3, "one split k-mer on the first and two on the second contig");
    assert!(r.split_kmer_pos[0].kmer == r.split_kmer_pos[1].kmer && r.split_kmer_pos[2].kmer != r.split_kmer_pos[0].kmer, "first two are the same split k-mer");
    let exp = [0usize, 1, 2, 3, 4, 5, 6, 7, 8, 9];
    assert!(r.repeat_coors.len() == exp.len(), "repeat mask covers the two repeated windows, nothing else");
    let mut q = 0;
    while q < 10 { assert!(r.repeat_coors[q] == exp[q], "repeat mask = absolute positions within (k-1)/2 of the centre of the repeated split k-mer"); q += 1; }
    kani::cover!(flat[2] == b'a' && flat[7] == b'T', "different middle bases");
    std::mem::forget(r);
}
