//! C01.acc / C02.order / C15.use: accumulation of middle bases into the per-sample dictionary.
use super::super::*;
use crate::verif_support::*;

fn enc_to_set(e: u8) -> u8 { match e { 0 => 0b0001, 1 => 0b0010, 2 => 0b1000, _ => 0b0100 } }
fn comp_set(s: u8) -> u8 { ((s & 0b0001) << 3) | ((s & 0b1000) >> 3) | ((s & 0b0010) << 1) | ((s & 0b0100) >> 1) }

pub(crate) fn empty_dict(k: usize, rc: bool, idx: usize, name: &str) -> SkaDict<u64> {
    SkaDict::<u64> { k, rc, sample_idx: idx, name: name.to_string(), split_kmers: HashMap::default(), kmer_filter: KmerFilter::default() }
}

/// up to 4 observations of one split k-mer (every subset of the four bases in every order is reached),
/// interleaved with an observation of a different k-mer
#[kani::proof]
#[kani::unwind(6)]
fn acc_one_kmer() {
    let mut d = empty_dict(7, true, 0, "s");
    let n: usize = kani::any();
    kani::assume(n >= 1 && n <= 4);
    let b: [u8; 4] = [kani::any(), kani::any(), kani::any(), kani::any()];
    kani::assume(b[0] < 4 && b[1] < 4 && b[2] < 4 && b[3] < 4);
    let other_at: usize = kani::any();
    let ob: u8 = kani::any();
    kani::assume(ob < 4);
    let mut set = 0u8;
    let mut i = 0;
    while i < 4 {
        if i == other_at { d.add_to_dict(99, ob); }
        if i < n { d.add_to_dict(7, b[i]); set |= enc_to_set(b[i]); }
        i += 1;
    }
    let exp_len = if other_at < 4 { 2 } else { 1 };
    assert!(d.split_kmers.len() == exp_len, "exactly one entry per split k-mer");
    assert!(d.split_kmers[&7] == spec_code(set), "stored byte = IUPAC code of the set of middle bases seen");
    if other_at < 4 { assert!(d.split_kmers[&99] == spec_code(enc_to_set(ob)), "other k-mer undisturbed"); }
    kani::cover!(n == 4 && set == 0b1111, "all four bases seen");
    kani::cover!(n == 3 && set == 0b0001, "same base three times");
    kani::cover!(other_at == 1 && n >= 2, "interleaved with another k-mer");
    std::mem::forget(d);
}

/// self-reverse-complement split k-mers carry the base together with its complement (W, S or N)
#[kani::proof]
#[kani::unwind(6)]
fn acc_palindrome() {
    let mut d = empty_dict(7, true, 0, "s");
    let n: usize = kani::any();
    kani::assume(n >= 1 && n <= 4);
    let b: [u8; 4] = [kani::any(), kani::any(), kani::any(), kani::any()];
    kani::assume(b[0] < 4 && b[1] < 4 && b[2] < 4 && b[3] < 4);
    let mut set = 0u8;
    let mut i = 0;
    while i < 4 {
        if i < n { d.add_palindrome_to_dict(7, b[i]); let s = enc_to_set(b[i]); set |= s | comp_set(s); }
        i += 1;
    }
    assert!(d.split_kmers.len() == 1, "exactly one entry");
    let got = d.split_kmers[&7];
    assert!(got == spec_code(set), "palindrome entry = code of bases seen plus their complements");
    assert!(got == b'W' || got == b'S' || got == b'N', "W, S or N");
    kani::cover!(got == b'N', "both pairs seen");
    kani::cover!(got == b'S' && n == 4, "only C/G seen four times");
    std::mem::forget(d);
}

/// harness-side insertion into a per-sample dictionary built directly
pub(crate) fn dict_insert(d: &mut SkaDict<u64>, kmer: u64, base: u8) { d.split_kmers.insert(kmer, base); }
