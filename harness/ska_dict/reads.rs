//! C12.glue: building from reads includes a split k-mer / middle-base combination exactly when its k-mer has
//! been seen --min-count times among windows whose middle base passes the quality rule (`add_file_kmers`:
//! quality test, counting filter and dictionary update in their real order).
use super::super::*;
use crate::verif_models::needletail::{vfs_path, vfs_set, ModelFile, ModelRecord};
use crate::verif_support::*;
use crate::ska_dict::nthash::NtHashIterator;
use crate::QualFilter;

const K: usize = 5;
const RL: usize = K + 1; // two windows per read
const MIN_QUAL: u8 = 20;

/// block of the 4-word Bloom buffer a hash falls into (specification copy of KmerFilter::location for buf_size 4)
fn block(h: u64) -> u64 { (((h ^ (h >> 31)).wrapping_mul(0x85D0_59AA_3331_21CF) as u128 * 4u128) >> 64) as u64 }

/// NR copies of one read of k+1 bases (bases symbolic), each copy with its own middle-base qualities
fn reads_same_sequence<const NR: usize, const MIN_COUNT: u16>() {
    let mut w = [b'A'; RL];
    let mut i = 0;
    while i < RL { w[i] = any_upper_base(); i += 1; }
    let rc: bool = kani::any();
    // the two k-mers of the read must not share a Bloom block (collisions may let a k-mer in early: the property
    // allows that, this obligation is about the collision-free behaviour) and must be different k-mers
    let ha = NtHashIterator::new(&w[0..K], K, rc).curr_hash();
    let hb = NtHashIterator::new(&w[1..RL], K, rc).curr_hash();
    kani::assume(block(ha) != block(hb));
    let mut pass = [[false; 2]; NR];
    let mut recs: Vec<ModelRecord> = Vec::with_capacity(NR);
    let mut r = 0;
    while r < NR {
        let mut q = [b'I'; RL]; // phred 40 everywhere ...
        let q0: u8 = kani::any(); let q1: u8 = kani::any();
        kani::assume(q0 >= 33 && q0 <= 73 && q1 >= 33 && q1 <= 73);
        q[2] = q0; q[3] = q1;    // ... except at the middle bases of the two windows
        pass[r][0] = q0 - 33 >= MIN_QUAL;
        pass[r][1] = q1 - 33 >= MIN_QUAL;
        recs.push(ModelRecord { id: b"r", seq: w.to_vec(), qual: Some(q.to_vec()) });
        r += 1;
    }
    vfs_set(vec![ModelFile { path: "reads.fq", records: recs }]);
    stub_io(true); // KmerFilter::init -> 4-word Bloom buffer
    let qual = QualOpts { min_count: MIN_COUNT, min_qual: MIN_QUAL, qual_filter: QualFilter::Middle };
    // at least one window must make it into the dictionary (SkaDict::new refuses an empty result)
    let mut cnt = [0usize; 2];
    let mut r = 0;
    while r < NR { if pass[r][0] { cnt[0] += 1; } if pass[r][1] { cnt[1] += 1; } r += 1; }
    kani::assume(cnt[0] >= MIN_COUNT as usize || cnt[1] >= MIN_COUNT as usize);
    let d = SkaDict::<u64>::new(K, 0, (&vfs_path("reads.fq"), None), "s", rc, &qual, None);
    // specification: window t (t = 0, 1) contributes its split k-mer iff it was seen min_count times with a passing middle base
    let mut t = 0;
    while t < 2 {
        let (ek, _eb, _er) = crate::ska_dict::split_kmer::verif_harness::common::spec_window(&w, t, K, rc, K);
        let present = d.split_kmers.contains_key(&(ek as u64));
        let other = 1 - t;
        let (ok_other, _b, _r) = crate::ska_dict::split_kmer::verif_harness::common::spec_window(&w, other, K, rc, K);
        if ok_other != ek {
            assert!(present == (cnt[t] >= MIN_COUNT as usize), "split k-mer included exactly when seen min-count times at passing middle-base quality");
        }
        t += 1;
    }
    kani::cover!(cnt[1] + 1 == MIN_COUNT as usize && !pass[0][1], "second window: one passing sighting short, first sighting fails the quality rule");
    kani::cover!(cnt[1] == MIN_COUNT as usize && !pass[NR - 1][1] , "second window reaches the count although its last sighting fails");
    std::mem::forget(d);
}
#[kani::proof]
#[kani::stub(core::str::from_utf8, stub_from_utf8_reads)]
#[kani::unwind(9)]
fn reads_glue_n2_m2() { reads_same_sequence::<2, 2>(); }
#[kani::proof]
#[kani::stub(core::str::from_utf8, stub_from_utf8_reads)]
#[kani::unwind(9)]
fn reads_glue_n3_m2() { reads_same_sequence::<3, 2>(); }
#[kani::proof]
#[kani::stub(core::str::from_utf8, stub_from_utf8_reads)]
#[kani::unwind(9)]
fn reads_glue_n4_m3() { reads_same_sequence::<4, 3>(); }
fn stub_from_utf8_reads(v: &[u8]) -> Result<&str, std::str::Utf8Error> { Ok(unsafe { std::str::from_utf8_unchecked(v) }) }
