//! C05.idx: the (contig, offset) iterator used to place VCF records.
use super::super::*;

macro_rules! idx_iter {
    ($name:ident, $nc:expr, $maxlen:expr, $unw:expr) => {
        #[kani::proof]
        #[kani::unwind($unw)]
        fn $name() {
            const NC: usize = $nc;
            const MAXLEN: usize = $maxlen;
            let mut lens = [0usize; NC];
            let mut reference: Vec<Vec<u8>> = Vec::with_capacity(NC);
            let mut total = 0;
            let mut c = 0;
            while c < NC {
                let l: usize = kani::any();
                // every contig is non-empty (an empty FASTA record is outside the property's quantifier)
                kani::assume(l >= 1 && l <= MAXLEN);
                lens[c] = l;
                total += l;
                reference.push(vec![b'A'; l]);
                c += 1;
            }
            let idx = IdxCheck::new(&reference);
            let mut it = idx.iter();
            // walk the specification: contig by contig, offset by offset
            let mut n = 0;
            let mut sc = 0;
            while sc < NC {
                let mut sp = 0;
                while sp < MAXLEN {
                    if sp < lens[sc] {
                        let got = it.next();
                        assert!(got == Some((sc, sp)), "i-th item is (contig, offset) of absolute index i");
                        n += 1;
                    }
                    sp += 1;
                }
                sc += 1;
            }
            assert!(n == total, "sum of lengths items");
            assert!(it.next().is_none(), "None after the last position");
            kani::cover!(lens[0] == 1 && lens[NC - 1] == MAXLEN, "contig of length 1 first, longest last");
            std::mem::forget(reference);
        }
    };
}
idx_iter!(idx_iter_3x4, 3, 4, 7);
idx_iter!(idx_iter_4x6, 4, 6, 9);
