//! C03.new / C02.cols: `MergeSkaDict::append` + `MergeSkaArray::new` build the sample-by-k-mer table.
use super::super::*;
use super::common::*;
use crate::merge_ska_array::MergeSkaArray;

fn append_new<const NK: usize, const NS: usize>(perm: [usize; NS]) { append_new_p::<NK, NS>(perm, None) }
/// pres: Some(bitmask) fixes the presence pattern (bit s*NK+i = sample s has key i), None leaves it symbolic
fn append_new_p<const NK: usize, const NS: usize>(perm: [usize; NS], pres: Option<u32>) {
    let names = ["s0", "s1", "s2"];
    let rc: bool = kani::any();
    let mut present = [[false; NK]; NS];
    let mut bases = [[0u8; NK]; NS];
    let mut s = 0;
    while s < NS { let mut i = 0; while i < NK { present[s][i] = match pres { Some(m) => (m >> (s * NK + i)) & 1 == 1, None => kani::any() }; bases[s][i] = any_code(); i += 1; } s += 1; }
    let mut md = MergeSkaDict::<u64>::new(7, NS, rc);
    // samples are appended in the order perm (each carries its own index): the result must not depend on it
    let mut t = 0;
    while t < NS {
        let s = perm[t];
        let d = sample_dict::<NK>(7, rc, s, names[s], &present[s], &bases[s]);
        md.append(&d);
        std::mem::forget(d);
        t += 1;
    }
    let mut n_union = 0;
    let mut i = 0;
    while i < NK {
        let mut any_p = false;
        let mut s = 0;
        while s < NS { if present[s][i] { any_p = true; } s += 1; }
        if any_p {
            n_union += 1;
            let v = md.split_kmers.get(&KEYS[i]);
            assert!(v.is_some(), "k-mer of some sample is in the merged dictionary");
            let v = v.unwrap();
            assert!(v.len() == NS, "one slot per sample");
            let mut s = 0;
            while s < NS { assert!(v[s] == if present[s][i] { bases[s][i] } else { 0 }, "sample's base in its own column, 0 where absent"); s += 1; }
        } else {
            assert!(!md.split_kmers.contains_key(&KEYS[i]), "no entry for a k-mer seen in no sample");
        }
        i += 1;
    }
    assert!(md.ksize() == n_union, "no other entry");
    let mut s = 0;
    while s < NS { assert!(md.names[s].as_bytes() == names[s].as_bytes(), "names in sample-index order"); s += 1; }
    // array conversion
    let arr = MergeSkaArray::new(&md);
    assert!(arr.ksize() == n_union && arr.nsamples() == NS && arr.kmer_len() == 7 && arr.rc() == rc, "array shape and metadata");
    let nk = arr.n_sample_kmers();
    let mut s = 0;
    while s < NS {
        let mut exp = 0;
        let mut i = 0;
        while i < NK { if present[s][i] { exp += 1; } i += 1; }
        assert!(nk[s] == exp, "per-sample k-mer count = number of k-mers of that sample");
        s += 1;
    }
    let mut r = 0;
    while r < NK {
        if r < n_union {
            let (key, row) = arr.iter().nth(r).unwrap();
            let mut found = false;
            let mut i = 0;
            while i < NK {
                if KEYS[i] == key {
                    found = true;
                    let mut cnt = 0;
                    let mut s = 0;
                    while s < NS {
                        assert!(row[s] == if present[s][i] { bases[s][i] } else { b'-' }, "row shows sample's base in column of the sample, '-' where absent");
                        if present[s][i] { cnt += 1; }
                        s += 1;
                    }
                    assert!(crate::merge_ska_array::verif_harness::common::count_at(&arr, r) == cnt, "stored count = number of samples with the k-mer");
                }
                i += 1;
            }
            assert!(found, "row key is a k-mer of the union");
            let mut q = 0;
            while q < r { assert!(arr.iter().nth(q).unwrap().0 != key, "each k-mer has one row"); q += 1; }
        }
        r += 1;
    }
    if pres.is_none() {
        kani::cover!(n_union == NK && !present[0][0], "all k-mers present, first sample lacks one");
        kani::cover!(n_union == 1, "a single shared or private k-mer");
    } else { kani::cover!(true, "conversion returns"); }
    std::mem::forget(md); std::mem::forget(arr);
}
#[kani::proof]
#[kani::unwind(6)]
fn append_new_2x2() { append_new::<2, 2>([0, 1]); }
#[kani::proof]
#[kani::unwind(6)]
fn append_new_2x2_swapped() { append_new::<2, 2>([1, 0]); }
#[kani::proof]
#[kani::unwind(8)]
fn append_new_3x3() { append_new::<3, 3>([0, 1, 2]); }
#[kani::proof]
#[kani::unwind(8)]
fn append_new_3x3_perm() { append_new::<3, 3>([2, 0, 1]); }
#[kani::proof]
#[kani::unwind(6)]
fn append_new_2x2_p0() { append_new_p::<2, 2>([0, 1], Some(0)); }
#[kani::proof]
#[kani::unwind(6)]
fn append_new_2x2_p1() { append_new_p::<2, 2>([1, 0], Some(1)); }
#[kani::proof]
#[kani::unwind(6)]
fn append_new_2x2_p2() { append_new_p::<2, 2>([0, 1], Some(2)); }
#[kani::proof]
#[kani::unwind(6)]
fn append_new_2x2_p3() { append_new_p::<2, 2>([1, 0], Some(3)); }
#[kani::proof]
#[kani::unwind(6)]
fn append_new_2x2_p4() { append_new_p::<2, 2>([0, 1], Some(4)); }
#[kani::proof]
#[kani::unwind(6)]
fn append_new_2x2_p5() { append_new_p::<2, 2>([1, 0], Some(5)); }
#[kani::proof]
#[kani::unwind(6)]
fn append_new_2x2_p6() { append_new_p::<2, 2>([0, 1], Some(6)); }
#[kani::proof]
#[kani::unwind(6)]
fn append_new_2x2_p7() { append_new_p::<2, 2>([1, 0], Some(7)); }
#[kani::proof]
#[kani::unwind(6)]
fn append_new_2x2_p8() { append_new_p::<2, 2>([0, 1], Some(8)); }
#[kani::proof]
#[kani::unwind(6)]
fn append_new_2x2_p9() { append_new_p::<2, 2>([1, 0], Some(9)); }
#[kani::proof]
#[kani::unwind(6)]
fn append_new_2x2_p10() { append_new_p::<2, 2>([0, 1], Some(10)); }
#[kani::proof]
#[kani::unwind(6)]
fn append_new_2x2_p11() { append_new_p::<2, 2>([1, 0], Some(11)); }
#[kani::proof]
#[kani::unwind(6)]
fn append_new_2x2_p12() { append_new_p::<2, 2>([0, 1], Some(12)); }
#[kani::proof]
#[kani::unwind(6)]
fn append_new_2x2_p13() { append_new_p::<2, 2>([1, 0], Some(13)); }
#[kani::proof]
#[kani::unwind(6)]
fn append_new_2x2_p14() { append_new_p::<2, 2>([0, 1], Some(14)); }
#[kani::proof]
#[kani::unwind(6)]
fn append_new_2x2_p15() { append_new_p::<2, 2>([1, 0], Some(15)); }
