//! Builders for per-sample and merged dictionaries (state constructed directly).
#![allow(dead_code)]
use super::super::*;
use crate::verif_support::*;

pub const KEYS: [u64; 3] = [10, 20, 30];

pub fn any_code() -> u8 {
    let c: u8 = kani::any();
    kani::assume(matches!(c, b'A' | b'C' | b'G' | b'T' | b'N' | b'R' | b'Y' | b'S' | b'W' | b'K' | b'M' | b'B' | b'D' | b'H' | b'V'));
    c
}
pub fn any_acgt() -> u8 {
    let c: u8 = kani::any();
    kani::assume(matches!(c, b'A' | b'C' | b'G' | b'T'));
    c
}
/// per-sample dictionary over the first NK keys of the universe: present[i] tells whether key i is in it
pub fn sample_dict<const NK: usize>(k: usize, rc: bool, idx: usize, name: &str, present: &[bool; NK], bases: &[u8; NK]) -> SkaDict<u64> {
    let mut d = crate::ska_dict::verif_harness::acc::empty_dict(k, rc, idx, name);
    let mut i = 0;
    while i < NK { if present[i] { crate::ska_dict::verif_harness::acc::dict_insert(&mut d, KEYS[i], bases[i]); } i += 1; }
    d
}
/// merged dictionary with n samples named n0.. over the first NK keys; vectors given (0 = absent sample)
pub fn merged_dict<const NK: usize, const NS: usize>(k: usize, rc: bool, names: [&str; NS], present: &[bool; NK], vecs: &[[u8; NS]; NK]) -> MergeSkaDict<u64> {
    let mut d = MergeSkaDict::<u64>::new(k, NS, rc);
    let mut j = 0;
    while j < NS { d.names[j] = names[j].to_string(); j += 1; }
    let mut i = 0;
    while i < NK {
        if present[i] {
            let mut v = Vec::with_capacity(NS);
            let mut j = 0;
            while j < NS { v.push(vecs[i][j]); j += 1; }
            d.split_kmers.insert(KEYS[i], v);
        }
        i += 1;
    }
    d
}
