//! C11.merge: `MergeSkaDict::merge` (the join step of the parallel build) combines two partial tables built
//! over disjoint sample index ranges of one run: names and bases of both survive, nothing else appears.
use super::super::*;
use super::common::*;

/// total 3 samples; self holds sample 0, other holds samples 1 and 2. P0/P1: presence of key 0/1
/// (0 neither, 1 self only, 2 other only, 3 both) -- concrete per harness; bases symbolic.
fn merge_case<const P0: u8, const P1: u8>() {
    const NS: usize = 3;
    let rc: bool = kani::any();
    let p = [P0, P1];
    let ps = [P0 & 1 != 0, P1 & 1 != 0];
    let po = [P0 & 2 != 0, P1 & 2 != 0];
    let mut vs = [[0u8; NS]; 2];
    let mut vo = [[0u8; NS]; 2];
    let mut i = 0;
    while i < 2 {
        vs[i][0] = any_code();
        let a1: bool = kani::any(); let a2: bool = kani::any();
        vo[i][1] = if a1 { 0 } else { any_code() };
        vo[i][2] = if a2 { 0 } else { any_code() };
        i += 1;
    }
    let mut a = merged_dict::<2, NS>(7, rc, ["s0", "", ""], &ps, &vs);
    let mut b = merged_dict::<2, NS>(7, rc, ["", "s1", "s2"], &po, &vo);
    let b_nonempty = po[0] || po[1];
    a.merge(&mut b);
    assert!(a.nsamples() == NS && a.kmer_len() == 7 && a.rc() == rc, "metadata kept");
    if b_nonempty {
        let mut n_union = 0;
        let mut i = 0;
        while i < 2 {
            if p[i] != 0 {
                n_union += 1;
                let v = a.split_kmers.get(&KEYS[i]);
                assert!(v.is_some(), "k-mer of either partial table is in the result");
                let v = v.unwrap();
                assert!(v.len() == NS, "one slot per sample");
                let mut j = 0;
                while j < NS {
                    let es = if ps[i] { vs[i][j] } else { 0 };
                    let eo = if po[i] { vo[i][j] } else { 0 };
                    assert!(v[j] == if j == 0 { es } else { eo }, "each sample keeps its own base");
                    j += 1;
                }
            } else { assert!(!a.split_kmers.contains_key(&KEYS[i]), "no entry for a k-mer of neither table"); }
            i += 1;
        }
        assert!(a.ksize() == n_union, "no other entry");
        // names: when self is empty the tables are swapped, so only the other table's names are known
        if ps[0] || ps[1] { assert!(a.names[0].as_bytes() == b"s0", "own name kept"); }
        assert!(a.names[1].as_bytes() == b"s1" && a.names[2].as_bytes() == b"s2", "names of the other partial table filled in");
    } else {
        // an empty partial table contributes nothing
        assert!(a.ksize() == (ps[0] as usize + ps[1] as usize), "merging an empty table changes nothing");
    }
    kani::cover!(true, "merge returns");
    std::mem::forget(a); std::mem::forget(b);
}
macro_rules! gen_merge { ($($name:ident: $p0:expr, $p1:expr;)*) => { $(
    #[kani::proof]
    #[kani::unwind(6)]
    fn $name() { merge_case::<$p0, $p1>(); }
)* }; }
gen_merge! {
    merge_p00: 0, 0; merge_p01: 0, 1; merge_p02: 0, 2; merge_p03: 0, 3;
    merge_p11: 1, 1; merge_p12: 1, 2; merge_p13: 1, 3; merge_p22: 2, 2; merge_p23: 2, 3; merge_p33: 3, 3;
}
