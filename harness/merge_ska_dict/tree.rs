//! C11.tree: the result of `build_and_merge` does not depend on the thread count: the recursive split /
//! join tree (`parallel_append`, `multi_append`, `merge`) gives the same table as the serial loop.
//! `SkaDict::new` is replaced by a dictionary provider (one symbolic entry per sample); rayon is the
//! sequential model (nothing is claimed about interleavings).
use super::super::*;
use super::common::*;
use crate::verif_support::*;
use crate::QualFilter;

const NAMES: [&str; 32] = ["s00", "s01", "s02", "s03", "s04", "s05", "s06", "s07", "s08", "s09", "s10", "s11", "s12", "s13", "s14", "s15",
    "s16", "s17", "s18", "s19", "s20", "s21", "s22", "s23", "s24", "s25", "s26", "s27", "s28", "s29", "s30", "s31"];

fn tree<const N: usize>(threads: usize) {
    let rc: bool = kani::any();
    let mut key = [0u64; N];
    let mut base = [0u8; N];
    let mut files: Vec<InputFastx> = Vec::with_capacity(N);
    let mut i = 0;
    while i < N {
        let second: bool = kani::any();
        key[i] = if second { 20 } else { 10 };
        base[i] = any_acgt();
        provide_entry(i, key[i], base[i]);
        files.push((NAMES[i].to_string(), "f".to_string(), None));
        i += 1;
    }
    dict_provider(true);
    crate::verif_models::rayon::model_pool_reset();
    let qual = QualOpts { min_count: 1, min_qual: 0, qual_filter: QualFilter::NoFilter };
    let d = build_and_merge::<u64>(&files, 7, rc, &qual, threads, None);
    assert!(d.nsamples() == N && d.kmer_len() == 7 && d.rc() == rc, "metadata");
    let mut i = 0;
    while i < N { assert!(d.names[i].as_bytes() == NAMES[i].as_bytes(), "sample names in input order"); i += 1; }
    let mut n_keys = 0;
    let mut kk = 0;
    while kk < 2 {
        let kv = if kk == 0 { 10u64 } else { 20u64 };
        let mut any_s = false;
        let mut i = 0;
        while i < N { if key[i] == kv { any_s = true; } i += 1; }
        if any_s {
            n_keys += 1;
            let v = d.split_kmers.get(&kv);
            assert!(v.is_some(), "k-mer of some sample present");
            let v = v.unwrap();
            assert!(v.len() == N, "one slot per sample");
            let mut i = 0;
            while i < N { assert!(v[i] == if key[i] == kv { base[i] } else { 0 }, "same table as the single-threaded build: sample's base in its own column"); i += 1; }
        } else { assert!(!d.split_kmers.contains_key(&kv), "no entry for a k-mer of no sample"); }
        kk += 1;
    }
    assert!(d.ksize() == n_keys, "no other entry");
    kani::cover!(n_keys == 2 && key[0] != key[N - 1], "both k-mers, first and last sample differ");
    std::mem::forget(d); std::mem::forget(files);
}
#[kani::proof]
#[kani::unwind(6)]
fn tree_n3_t1() { tree::<3>(1); }
#[kani::proof]
#[kani::unwind(6)]
fn tree_n3_t4() { tree::<3>(4); }
#[kani::proof]
#[kani::unwind(12)]
fn tree_n10_t1() { tree::<10>(1); }
#[kani::proof]
#[kani::unwind(12)]
fn tree_n10_t2() { tree::<10>(2); }
#[kani::proof]
#[kani::unwind(13)]
fn tree_n11_t16() { tree::<11>(16); }
#[kani::proof]
#[kani::unwind(22)]
fn tree_n20_t4() { tree::<20>(4); }
#[kani::proof]
#[kani::unwind(32)]
fn tree_n30_t4() { tree::<30>(4); }
#[kani::proof]
#[kani::unwind(32)]
fn tree_n30_t16() { tree::<30>(16); }

/// the recursive split with a NON-ZERO offset (what happens from merge depth 3 on, i.e. >= 70 input files with
/// >= 8 threads): `parallel_append` called directly on 4 samples that are samples 2..6 of a 6-sample build
#[kani::proof]
#[kani::unwind(8)]
fn parallel_append_depth2_offset2() {
    const N: usize = 4;
    const OFF: usize = 2;
    const TOTAL: usize = 6;
    let rc: bool = kani::any();
    let mut key = [0u64; N];
    let mut base = [0u8; N];
    let mut files: Vec<InputFastx> = Vec::with_capacity(N);
    let mut i = 0;
    while i < N {
        let second: bool = kani::any();
        key[i] = if second { 20 } else { 10 };
        base[i] = any_acgt();
        provide_entry(OFF + i, key[i], base[i]); // SkaDict::new receives the sample index offset + i
        files.push((NAMES[OFF + i].to_string(), "f".to_string(), None));
        i += 1;
    }
    dict_provider(true);
    let qual = QualOpts { min_count: 1, min_qual: 0, qual_filter: QualFilter::NoFilter };
    let d = parallel_append::<u64>(2, OFF, &files, TOTAL, 7, rc, &qual, None);
    assert!(d.nsamples() == TOTAL, "table sized for the whole build");
    let mut i = 0;
    while i < N { assert!(d.names[OFF + i].as_bytes() == NAMES[OFF + i].as_bytes(), "each sample's name at its own index"); i += 1; }
    let mut kk = 0;
    while kk < 2 {
        let kv = if kk == 0 { 10u64 } else { 20u64 };
        let mut any_s = false;
        let mut i = 0;
        while i < N { if key[i] == kv { any_s = true; } i += 1; }
        if any_s {
            let v = d.split_kmers.get(&kv).unwrap();
            assert!(v.len() == TOTAL, "one slot per sample of the whole build");
            let mut j = 0;
            while j < TOTAL {
                let exp = if j >= OFF && j < OFF + N && key[j - OFF] == kv { base[j - OFF] } else { 0 };
                assert!(v[j] == exp, "each sample's base in its own column, whatever the split");
                j += 1;
            }
        } else { assert!(!d.split_kmers.contains_key(&kv), "no entry for a k-mer of no sample"); }
        kk += 1;
    }
    kani::cover!(key[0] != key[3], "first and last sample of the slice differ");
    std::mem::forget(d); std::mem::forget(files);
}
