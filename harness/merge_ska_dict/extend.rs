//! C07.ext: `MergeSkaDict::extend` (ska merge) = concatenation of sample columns over the union of k-mers.
//! The presence pattern of the two-key universe is case-split (one harness per pattern; symbolic presence
//! runs out of memory), bases stay symbolic.
use super::super::*;
use super::common::*;

/// P0/P1: presence of key 0/1: 0 neither, 1 self only, 2 other only, 3 both
fn extend_case<const P0: u8, const P1: u8, const N1: usize, const N2: usize>() {
    let rc: bool = kani::any();
    let p = [P0, P1];
    let ps = [P0 & 1 != 0, P1 & 1 != 0];
    let po = [P0 & 2 != 0, P1 & 2 != 0];
    let mut v1 = [[0u8; N1]; 2];
    let mut v2 = [[0u8; N2]; 2];
    let mut i = 0;
    while i < 2 {
        let mut j = 0;
        // a stored vector holds a code or 0 (sample lacks the k-mer)
        while j < N1 { let absent: bool = kani::any(); v1[i][j] = if absent { 0 } else { any_code() }; j += 1; }
        let mut j = 0;
        while j < N2 { let absent: bool = kani::any(); v2[i][j] = if absent { 0 } else { any_code() }; j += 1; }
        i += 1;
    }
    let n1names: [&str; N1] = std::array::from_fn(|j| if j == 0 { "a0" } else { "a1" });
    let n2names: [&str; N2] = std::array::from_fn(|j| if j == 0 { "b0" } else { "b1" });
    let mut a = merged_dict::<2, N1>(7, rc, n1names, &ps, &v1);
    let mut b = merged_dict::<2, N2>(7, rc, n2names, &po, &v2);
    a.extend(&mut b);
    assert!(a.nsamples() == N1 + N2 && a.kmer_len() == 7 && a.rc() == rc, "sample count summed, k and strand mode kept");
    assert!(a.names.len() == N1 + N2, "names concatenated");
    let mut j = 0;
    while j < N1 + N2 {
        let exp = if j < N1 { n1names[j] } else { n2names[j - N1] };
        assert!(a.names[j].as_bytes() == exp.as_bytes(), "names in argument order");
        j += 1;
    }
    let mut n_union = 0;
    let mut i = 0;
    while i < 2 {
        if p[i] != 0 {
            n_union += 1;
            let v = a.split_kmers.get(&KEYS[i]);
            assert!(v.is_some(), "k-mer of either input is in the result");
            let v = v.unwrap();
            assert!(v.len() == N1 + N2, "one slot per sample of either input");
            let mut j = 0;
            while j < N1 + N2 {
                let exp = if j < N1 { if ps[i] { v1[i][j] } else { 0 } } else { if po[i] { v2[i][j - N1] } else { 0 } };
                assert!(v[j] == exp, "own bases first, then the other input's, missing where the k-mer is absent");
                j += 1;
            }
        } else {
            assert!(!a.split_kmers.contains_key(&KEYS[i]), "no entry for a k-mer of neither input");
        }
        i += 1;
    }
    assert!(a.ksize() == n_union, "no other entry");
    kani::cover!(true, "extend returns");
    std::mem::forget(a); std::mem::forget(b);
}
macro_rules! gen_extend {
    ($($name:ident: $p0:expr, $p1:expr, $n1:expr, $n2:expr;)*) => { $(
        #[kani::proof]
        #[kani::unwind(6)]
        fn $name() { extend_case::<$p0, $p1, $n1, $n2>(); }
    )* };
}
include!("extend_gen.inc");

/// C07.refuse: inputs with a different k or strand mode are refused (the statement after the call is unreachable)
fn extend_refuses<const K2: usize, const FLIP: bool>() {
    let rc: bool = kani::any();
    let rc2 = if FLIP { !rc } else { rc };
    let v = [[b'A'; 1]; 2];
    let mut a = merged_dict::<2, 1>(7, rc, ["a0"], &[true, false], &v);
    let mut b = merged_dict::<2, 1>(K2, rc2, ["b0"], &[true, true], &v);
    kani::cover!(true, "call reached");
    a.extend(&mut b);
    assert!(false, "must-not-reach: extend returned although k or strand mode differ");
}
#[kani::proof]
#[kani::unwind(6)]
fn extend_refuses_k() { extend_refuses::<9, false>(); }
#[kani::proof]
#[kani::unwind(6)]
fn extend_refuses_strand() { extend_refuses::<7, true>(); }

fn append_refuses<const K2: usize, const FLIP: bool>() {
    let rc: bool = kani::any();
    let rc2 = if FLIP { !rc } else { rc };
    let mut a = MergeSkaDict::<u64>::new(7, 2, rc);
    let d = sample_dict::<2>(K2, rc2, 0, "s0", &[true, false], &[b'A', b'C']);
    kani::cover!(true, "call reached");
    a.append(&d);
    assert!(false, "must-not-reach: append returned although k or strand mode differ");
}
#[kani::proof]
#[kani::unwind(6)]
fn append_refuses_k() { append_refuses::<9, false>(); }
#[kani::proof]
#[kani::unwind(6)]
fn append_refuses_strand() { append_refuses::<7, true>(); }
