//! C16 harnesses for src/ska_dict/bit_encoding.rs (bit packing kernels, both integer widths).
use super::super::*;
use crate::verif_support::*;

// ---------------------------------------------------------------------------------------------
// C16 kernels
// ---------------------------------------------------------------------------------------------
fn ref_rc_u64(x: u64, n: usize) -> u64 {
    let mut out = 0u64;
    let mut i = 0;
    while i < n {
        let b = (x >> (2 * i)) & 3;
        out |= (b ^ 2) << (2 * (n - 1 - i));
        i += 1;
    }
    out
}
fn ref_rc_u128(x: u128, n: usize) -> u128 {
    let mut out = 0u128;
    let mut i = 0;
    while i < n {
        let b = (x >> (2 * i)) & 3;
        out |= (b ^ 2) << (2 * (n - 1 - i));
        i += 1;
    }
    out
}

#[kani::proof]
#[kani::unwind(33)]
fn c16_rc_u64_all_n() {
    let n: usize = kani::any();
    kani::assume(n >= 1 && n <= 32);
    let x: u64 = kani::any();
    kani::assume(n == 32 || x >> (2 * n) == 0);
    let r = <u64 as UInt>::rev_comp(x, n);
    assert!(r == ref_rc_u64(x, n), "rev_comp = base-by-base reference");
    assert!(<u64 as UInt>::rev_comp(r, n) == x, "involution");
    kani::cover!(n == 30 && x != 0, "n = k-1 for k=31");
}

#[kani::proof]
#[kani::unwind(65)]
fn c16_rc_u128_all_n() {
    let n: usize = kani::any();
    kani::assume(n >= 1 && n <= 64);
    let x: u128 = kani::any();
    kani::assume(n == 64 || x >> (2 * n) == 0);
    let r = <u128 as UInt>::rev_comp(x, n);
    assert!(r == ref_rc_u128(x, n), "rev_comp = base-by-base reference");
    assert!(<u128 as UInt>::rev_comp(r, n) == x, "involution");
    kani::cover!(n == 62 && x != 0, "n = k-1 for k=63");
}

#[kani::proof]
fn c16_masks_u64() {
    let k: usize = kani::any();
    kani::assume(k >= 5 && k <= 31 && k % 2 == 1);
    let h = (k - 1) / 2;
    let (lo, up) = <u64 as UInt>::generate_masks(k);
    // 4^h - 1 and its shift; written with shifts of a 128-bit value to be independent
    let exp_lo = ((1u128 << (2 * h)) - 1) as u64;
    let exp_up = (((1u128 << (4 * h)) - 1) as u64) ^ exp_lo;
    assert!(lo == exp_lo && up == exp_up, "split masks");
    let s = <u64 as UInt>::skalo_mask(k);
    assert!(s as u128 == (1u128 << (2 * k)) - 1, "skalo mask");
    kani::cover!(k == 31, "k=31 reached");
}

#[kani::proof]
fn c16_masks_u128() {
    let k: usize = kani::any();
    kani::assume(k >= 5 && k <= 63 && k % 2 == 1);
    let h = (k - 1) / 2;
    let (lo, up) = <u128 as UInt>::generate_masks(k);
    let mut exp_lo: u128 = 0;
    let mut exp_up: u128 = 0;
    let mut i = 0;
    while i < 62 {
        if i < h { exp_lo |= 3u128 << (2 * i); }
        if i >= h && i < 2 * h { exp_up |= 3u128 << (2 * i); }
        i += 1;
    }
    assert!(lo == exp_lo && up == exp_up, "split masks");
    let s = <u128 as UInt>::skalo_mask(k);
    let mut exp_s: u128 = 0;
    let mut j = 0;
    while j < 63 { if j < k { exp_s |= 3u128 << (2 * j); } j += 1; }
    assert!(s == exp_s, "skalo mask");
    kani::cover!(k == 63, "k=63 reached");
}

fn any_base_byte() -> u8 { any_base() }
fn spec_enc(b: u8) -> u8 { match upper(b) { b'A' => 0, b'C' => 1, b'T' => 2, _ => 3 } }

// C16.enc u64: encode_kmer = reference packing for every length <= 31, combine / last nucleotide identities
#[kani::proof]
#[kani::unwind(33)]
fn c16_encode_u64() {
    let mut s = [0u8; 31];
    let mut i = 0;
    while i < 31 { s[i] = any_base_byte(); i += 1; }
    let len: usize = kani::any();
    kani::assume(len >= 1 && len <= 31);
    let got = <u64 as UInt>::encode_kmer(&s[..len]);
    let mut exp: u64 = 0;
    let mut j = 0;
    while j < 31 { if j < len { exp |= (spec_enc(s[j]) as u64) << (2 * (len - 1 - j)); } j += 1; }
    assert!(got == exp, "encode_kmer = reference packing");
    assert!(<u64 as UInt>::lsb_u8(got) == spec_enc(s[len - 1]), "lsb is the last base");
    let last = <u64 as UInt>::get_last_nucl(got);
    assert!(last as u8 == upper(s[len - 1]), "last nucleotide decodes to the (upper-case) last base");
    // combine: (k-mer of first len-? ) — combine(x, y) = x with y's last base appended
    let other: u64 = kani::any();
    let comb = <u64 as UInt>::combine_kmers(exp >> 2, other);
    assert!(comb == ((exp >> 2) << 2 | (other & 3)), "combine appends the last base of the second k-mer");
    kani::cover!(len == 31, "full length reached");
}

#[kani::proof]
#[kani::unwind(65)]
fn c16_encode_u128() {
    let mut s = [0u8; 63];
    let mut i = 0;
    while i < 63 { s[i] = any_base_byte(); i += 1; }
    let len: usize = kani::any();
    kani::assume(len >= 1 && len <= 63);
    let got = <u128 as UInt>::encode_kmer(&s[..len]);
    let mut exp: u128 = 0;
    let mut j = 0;
    while j < 63 { if j < len { exp |= (spec_enc(s[j]) as u128) << (2 * (len - 1 - j)); } j += 1; }
    assert!(got == exp, "encode_kmer = reference packing");
    assert!(<u128 as UInt>::lsb_u8(got) == spec_enc(s[len - 1]), "lsb is the last base");
    let last = <u128 as UInt>::get_last_nucl(got);
    assert!(last as u8 == upper(s[len - 1]), "last nucleotide");
    kani::cover!(len == 63, "full length reached");
}

// encode_base / valid_base / decode_base / rc_base over all bytes (C02.case kernel, C16)
#[kani::proof]
fn c16_base_codec() {
    let x: u8 = kani::any();
    let ux = upper(x);
    if is_letter(x) && (ux == b'A' || ux == b'C' || ux == b'G' || ux == b'T') {
        let e = encode_base(x);
        assert!(e == spec_enc(x), "2-bit code");
        assert!(e == encode_base(ux), "case-insensitive");
        assert!(decode_base(e) == ux, "decode(encode) = upper-case base");
        assert!(valid_base(x), "A/C/G/T valid");
        let c = decode_base(rc_base(e));
        let exp_c = match ux { b'A' => b'T', b'C' => b'G', b'G' => b'C', _ => b'A' };
        assert!(c == exp_c, "rc_base complements");
    }
    if ux == b'N' && is_letter(x) { assert!(!valid_base(x), "N/n invalid"); }
    kani::cover!(x == b'g', "lower-case g");
}
