//! C15 harnesses for src/ska_dict/bit_encoding.rs (IUPAC table algebra over the complete finite domain).
use super::super::*;
use crate::verif_support::*;

/// two-bit encoding used by ska: A=0 C=1 T=2 G=3  -> set bit
fn spec_enc_to_set(e: u8) -> u8 { match e { 0 => 0b0001, 1 => 0b0010, 2 => 0b1000, _ => 0b0100 } }
fn spec_comp_set(s: u8) -> u8 {
    // A<->T, C<->G
    ((s & 0b0001) << 3) | ((s & 0b1000) >> 3) | ((s & 0b0010) << 1) | ((s & 0b0100) >> 1)
}

// C15.union: every cell of the 1024-entry table
#[kani::proof]
fn c15_union_table() {
    let existing: u8 = kani::any();
    let new_base: u8 = kani::any();
    kani::assume(new_base < 4);
    let got = IUPAC[new_base as usize * 256 + existing as usize];
    let code = if is_letter(existing) { spec_set(upper(existing)) } else { None };
    match code {
        Some(set) => {
            let exp = spec_code(set | spec_enc_to_set(new_base));
            assert!(got == exp, "IUPAC union cell");
        }
        None => assert!(got == 0, "non-code byte maps to no code"),
    }
    kani::cover!(existing == b'y' && new_base == 0 && got == b'H', "lower-case Y + A = H");
    kani::cover!(existing == b'B' && new_base == 0 && got == b'N', "B + A = N");
}

// C15.union (algebra): order / multiplicity independence of a fold of up to 4 observations
#[kani::proof]
fn c15_union_fold_order() {
    let b: [u8; 4] = [kani::any(), kani::any(), kani::any(), kani::any()];
    kani::assume(b[0] < 4 && b[1] < 4 && b[2] < 4 && b[3] < 4);
    let first = decode_base(b[0]);
    let mut acc = first;
    let mut set = spec_enc_to_set(b[0]);
    let mut i = 1;
    while i < 4 {
        acc = IUPAC[b[i] as usize * 256 + acc as usize];
        set |= spec_enc_to_set(b[i]);
        i += 1;
    }
    assert!(acc == spec_code(set), "fold = code of the set, any order, any multiplicity");
    kani::cover!(acc == b'N', "all four bases seen");
    kani::cover!(acc == b'A', "single base repeated");
}

// C15.rc
#[kani::proof]
fn c15_rc_table() {
    let x: u8 = kani::any();
    let got = RC_IUPAC[x as usize];
    let ux = upper(x);
    if is_letter(x) {
        if let Some(set) = spec_set(ux) {
            assert!(got == spec_code(spec_comp_set(set)), "complement of a code = code of complemented set");
            // involution on upper-case codes
            assert!(RC_IUPAC[got as usize] == ux, "involution");
        }
        // nothing is asserted about U or other non-code letters: the property's complement
        // clause speaks about the IUPAC codes only (the pinned table sends U to '-')
    }
    if x == b'-' { assert!(got == b'-', "gap fixed"); }
    if ux == b'S' || ux == b'W' || ux == b'N' { if is_letter(x) { assert!(got == ux, "S, W, N fixed"); } }
    kani::cover!(x == b'k' && got == b'M', "lower-case K -> M");
}

// C15.amb
#[kani::proof]
fn c15_is_ambiguous() {
    let x: u8 = kani::any();
    let got = is_ambiguous(x);
    let ux = upper(x);
    if is_letter(x) && (spec_set(ux).is_some() || ux == b'U') {
        let exp = !(ux == b'A' || ux == b'C' || ux == b'G' || ux == b'T' || ux == b'U');
        assert!(got == exp, "IUPAC letter ambiguous iff not A/C/G/T/U");
    }
    if x == b'-' { assert!(!got, "gap is not ambiguous"); }
    kani::cover!(x == b'n' && got, "n ambiguous");
}

// C15.prob
#[kani::proof]
fn c15_base_to_prob() {
    let x: u8 = kani::any();
    let p = base_to_prob(x);
    // index order of the vector: [A, C, T, G]
    let bits = [0b0001u8, 0b0010, 0b1000, 0b0100];
    let set = if x == b'U' { Some(0b1000u8) } else { spec_set(x) };
    if let Some(s) = set {
        if x == b'N' {
            assert!(p[0] == 0.0 && p[1] == 0.0 && p[2] == 0.0 && p[3] == 0.0, "N carries no weight");
        } else {
            let n = s.count_ones();
            let w = if n == 1 { 1.0 } else if n == 2 { 0.5 } else { 1.0 / 3.0 };
            let mut i = 0;
            while i < 4 {
                if s & bits[i] != 0 { assert!(p[i] == w, "uniform weight on the set"); } else { assert!(p[i] == 0.0, "zero off the set"); }
                i += 1;
            }
        }
    }
    if x == b'-' { assert!(p[0] == 0.0 && p[1] == 0.0 && p[2] == 0.0 && p[3] == 0.0, "gap carries no weight"); }
    kani::cover!(x == b'H', "three-base code reached");
}

