//! C16.nthash / C12.hash: the rolling read hash equals the hash computed from scratch at each window,
//! and with strands merged a k-mer and its reverse complement have the same hash.
//! One harness per k (rotation amounts become constants; k symbolic did not finish in 20 min).
use super::super::*;
use crate::verif_support::*;

fn nthash_roll<const K: usize, const L: usize>() {
    let k = K;
    let mut seq = [b'A'; L];
    let mut i = 0;
    while i < L { seq[i] = any_base(); i += 1; }
    let rc: bool = kani::any();
    let mut a = NtHashIterator::new(&seq[0..k], k, rc);
    a.roll_fwd(encode_base(seq[0]), encode_base(seq[k]));
    let b = NtHashIterator::new(&seq[1..k + 1], k, rc);
    assert!(a.fh == b.fh, "forward hash: roll = recompute");
    assert!(a.rh == b.rh, "reverse hash: roll = recompute");
    assert!(a.curr_hash() == b.curr_hash(), "hash: roll = recompute");
    // strand symmetry
    let mut v = [b'A'; L];
    let mut j = 0;
    while j < k { v[j] = comp(upper(seq[k - 1 - j])); j += 1; }
    let f = NtHashIterator::new(&seq[0..k], k, true);
    let r = NtHashIterator::new(&v[0..k], k, true);
    assert!(f.curr_hash() == r.curr_hash(), "a k-mer and its reverse complement have the same hash");
    assert!(f.fh == r.rh.unwrap() && f.rh.unwrap() == r.fh, "forward hash of one strand is the reverse hash of the other");
    kani::cover!(rc && a.rh.unwrap() < a.fh, "strands merged, reverse hash is the minimum");
    kani::cover!(!rc, "single strand");
}
#[kani::proof]
#[kani::unwind(8)]
fn nthash_k5() { nthash_roll::<5, 6>(); }
#[kani::proof]
#[kani::unwind(10)]
fn nthash_k7() { nthash_roll::<7, 8>(); }
#[kani::proof]
#[kani::unwind(12)]
fn nthash_k9() { nthash_roll::<9, 10>(); }
#[kani::proof]
#[kani::unwind(14)]
fn nthash_k11() { nthash_roll::<11, 12>(); }
#[kani::proof]
#[kani::unwind(16)]
fn nthash_k13() { nthash_roll::<13, 14>(); }
#[kani::proof]
#[kani::unwind(18)]
fn nthash_k15() { nthash_roll::<15, 16>(); }
#[kani::proof]
#[kani::unwind(20)]
fn nthash_k17() { nthash_roll::<17, 18>(); }
#[kani::proof]
#[kani::unwind(22)]
fn nthash_k19() { nthash_roll::<19, 20>(); }
#[kani::proof]
#[kani::unwind(24)]
fn nthash_k21() { nthash_roll::<21, 22>(); }
#[kani::proof]
#[kani::unwind(26)]
fn nthash_k23() { nthash_roll::<23, 24>(); }
#[kani::proof]
#[kani::unwind(28)]
fn nthash_k25() { nthash_roll::<25, 26>(); }
#[kani::proof]
#[kani::unwind(30)]
fn nthash_k27() { nthash_roll::<27, 28>(); }
#[kani::proof]
#[kani::unwind(32)]
fn nthash_k29() { nthash_roll::<29, 30>(); }
#[kani::proof]
#[kani::unwind(34)]
fn nthash_k31() { nthash_roll::<31, 32>(); }
#[kani::proof]
#[kani::unwind(36)]
fn nthash_k33() { nthash_roll::<33, 34>(); }
#[kani::proof]
#[kani::unwind(38)]
fn nthash_k35() { nthash_roll::<35, 36>(); }
#[kani::proof]
#[kani::unwind(40)]
fn nthash_k37() { nthash_roll::<37, 38>(); }
#[kani::proof]
#[kani::unwind(42)]
fn nthash_k39() { nthash_roll::<39, 40>(); }
#[kani::proof]
#[kani::unwind(44)]
fn nthash_k41() { nthash_roll::<41, 42>(); }
#[kani::proof]
#[kani::unwind(46)]
fn nthash_k43() { nthash_roll::<43, 44>(); }
#[kani::proof]
#[kani::unwind(48)]
fn nthash_k45() { nthash_roll::<45, 46>(); }
#[kani::proof]
#[kani::unwind(50)]
fn nthash_k47() { nthash_roll::<47, 48>(); }
#[kani::proof]
#[kani::unwind(52)]
fn nthash_k49() { nthash_roll::<49, 50>(); }
#[kani::proof]
#[kani::unwind(54)]
fn nthash_k51() { nthash_roll::<51, 52>(); }
#[kani::proof]
#[kani::unwind(56)]
fn nthash_k53() { nthash_roll::<53, 54>(); }
#[kani::proof]
#[kani::unwind(58)]
fn nthash_k55() { nthash_roll::<55, 56>(); }
#[kani::proof]
#[kani::unwind(60)]
fn nthash_k57() { nthash_roll::<57, 58>(); }
#[kani::proof]
#[kani::unwind(62)]
fn nthash_k59() { nthash_roll::<59, 60>(); }
#[kani::proof]
#[kani::unwind(64)]
fn nthash_k61() { nthash_roll::<61, 62>(); }
#[kani::proof]
#[kani::unwind(66)]
fn nthash_k63() { nthash_roll::<63, 64>(); }
