//! C16.nthash / C12.hash: the rolling read hash equals the hash computed from scratch at each window,
//! and with strands merged a k-mer and its reverse complement have the same hash.
//! One harness per k (rotation amounts become constants). The full-window identity (every base
//! symbolic) is an equivalence of two long XOR chains, which SAT decides only for k <= 13 within
//! minutes (k=15 did not finish in 10 min). For every k there is in addition a *slice* harness in which
//! the leaving base, the entering base and one base at a symbolic position are symbolic and the
//! remaining bases follow a concrete background (all A, or ACGT repeating).
use super::super::*;
use crate::verif_support::*;

fn check_identities<const L: usize>(seq: &[u8; L], k: usize, rc: bool) {
    let mut a = NtHashIterator::new(&seq[0..k], k, rc);
    a.roll_fwd(encode_base(seq[0]), encode_base(seq[k]));
    let b = NtHashIterator::new(&seq[1..k + 1], k, rc);
    assert!(a.fh == b.fh, "forward hash: roll = recompute");
    assert!(a.rh == b.rh, "reverse hash: roll = recompute");
    assert!(a.curr_hash() == b.curr_hash(), "hash: roll = recompute");
    // strand symmetry
    let mut v = [b'A'; L];
    let mut j = 0;
    while j < k { v[j] = comp(upper(seq[k - 1 - j])); j += 1; }
    let f = NtHashIterator::new(&seq[0..k], k, true);
    let r = NtHashIterator::new(&v[0..k], k, true);
    assert!(f.curr_hash() == r.curr_hash(), "a k-mer and its reverse complement have the same hash");
    assert!(f.fh == r.rh.unwrap() && f.rh.unwrap() == r.fh, "forward hash of one strand is the reverse hash of the other");
    kani::cover!(rc && a.rh.unwrap() < a.fh, "strands merged, reverse hash is the minimum");
    kani::cover!(!rc, "single strand");
}

fn nthash_full<const K: usize, const L: usize>() {
    let mut seq = [b'A'; L];
    let mut i = 0;
    while i < L { seq[i] = any_base(); i += 1; }
    let rc: bool = kani::any();
    check_identities::<L>(&seq, K, rc);
}

fn nthash_slice<const K: usize, const L: usize>() {
    let pattern: bool = kani::any();
    let bg = [b'A', b'C', b'G', b'T'];
    let mut seq = [b'A'; L];
    let mut i = 0;
    while i < L { if pattern { seq[i] = bg[i % 4]; } i += 1; }
    let p: usize = kani::any();
    kani::assume(p < L);
    seq[0] = any_base();
    seq[K] = any_base();
    seq[p] = any_base();
    let rc: bool = kani::any();
    check_identities::<L>(&seq, K, rc);
    kani::cover!(p > 0 && p < K && seq[p] == b'g' && pattern, "inner position carries a lower-case base on the ACGT background");
}
#[kani::proof]
#[kani::unwind(8)]
fn nthash_k5() { nthash_full::<5, 6>(); }
#[kani::proof]
#[kani::unwind(10)]
fn nthash_k7() { nthash_full::<7, 8>(); }
#[kani::proof]
#[kani::unwind(12)]
fn nthash_k9() { nthash_full::<9, 10>(); }
#[kani::proof]
#[kani::unwind(14)]
fn nthash_k11() { nthash_full::<11, 12>(); }
#[kani::proof]
#[kani::unwind(16)]
fn nthash_k13() { nthash_full::<13, 14>(); }
#[kani::proof]
#[kani::unwind(8)]
fn nthash_slice_k5() { nthash_slice::<5, 6>(); }
#[kani::proof]
#[kani::unwind(10)]
fn nthash_slice_k7() { nthash_slice::<7, 8>(); }
#[kani::proof]
#[kani::unwind(12)]
fn nthash_slice_k9() { nthash_slice::<9, 10>(); }
#[kani::proof]
#[kani::unwind(14)]
fn nthash_slice_k11() { nthash_slice::<11, 12>(); }
#[kani::proof]
#[kani::unwind(16)]
fn nthash_slice_k13() { nthash_slice::<13, 14>(); }
#[kani::proof]
#[kani::unwind(18)]
fn nthash_slice_k15() { nthash_slice::<15, 16>(); }
#[kani::proof]
#[kani::unwind(20)]
fn nthash_slice_k17() { nthash_slice::<17, 18>(); }
#[kani::proof]
#[kani::unwind(22)]
fn nthash_slice_k19() { nthash_slice::<19, 20>(); }
#[kani::proof]
#[kani::unwind(24)]
fn nthash_slice_k21() { nthash_slice::<21, 22>(); }
#[kani::proof]
#[kani::unwind(26)]
fn nthash_slice_k23() { nthash_slice::<23, 24>(); }
#[kani::proof]
#[kani::unwind(28)]
fn nthash_slice_k25() { nthash_slice::<25, 26>(); }
#[kani::proof]
#[kani::unwind(30)]
fn nthash_slice_k27() { nthash_slice::<27, 28>(); }
#[kani::proof]
#[kani::unwind(32)]
fn nthash_slice_k29() { nthash_slice::<29, 30>(); }
#[kani::proof]
#[kani::unwind(34)]
fn nthash_slice_k31() { nthash_slice::<31, 32>(); }
#[kani::proof]
#[kani::unwind(36)]
fn nthash_slice_k33() { nthash_slice::<33, 34>(); }
#[kani::proof]
#[kani::unwind(38)]
fn nthash_slice_k35() { nthash_slice::<35, 36>(); }
#[kani::proof]
#[kani::unwind(40)]
fn nthash_slice_k37() { nthash_slice::<37, 38>(); }
#[kani::proof]
#[kani::unwind(42)]
fn nthash_slice_k39() { nthash_slice::<39, 40>(); }
#[kani::proof]
#[kani::unwind(44)]
fn nthash_slice_k41() { nthash_slice::<41, 42>(); }
#[kani::proof]
#[kani::unwind(46)]
fn nthash_slice_k43() { nthash_slice::<43, 44>(); }
#[kani::proof]
#[kani::unwind(48)]
fn nthash_slice_k45() { nthash_slice::<45, 46>(); }
#[kani::proof]
#[kani::unwind(50)]
fn nthash_slice_k47() { nthash_slice::<47, 48>(); }
#[kani::proof]
#[kani::unwind(52)]
fn nthash_slice_k49() { nthash_slice::<49, 50>(); }
#[kani::proof]
#[kani::unwind(54)]
fn nthash_slice_k51() { nthash_slice::<51, 52>(); }
#[kani::proof]
#[kani::unwind(56)]
fn nthash_slice_k53() { nthash_slice::<53, 54>(); }
#[kani::proof]
#[kani::unwind(58)]
fn nthash_slice_k55() { nthash_slice::<55, 56>(); }
#[kani::proof]
#[kani::unwind(60)]
fn nthash_slice_k57() { nthash_slice::<57, 58>(); }
#[kani::proof]
#[kani::unwind(62)]
fn nthash_slice_k59() { nthash_slice::<59, 60>(); }
#[kani::proof]
#[kani::unwind(64)]
fn nthash_slice_k61() { nthash_slice::<61, 62>(); }
#[kani::proof]
#[kani::unwind(66)]
fn nthash_slice_k63() { nthash_slice::<63, 64>(); }
