//! C10.A: readers ignore the stored per-k-mer counts: `filter` (the only reader of `variant_count`) gives
//! the same result on two arrays with the same k-mers and bases whatever counts are stored.
use super::super::*;
use super::common::*;

fn filter_ignores_stored_counts<const FT: u8, const AM: bool, const UK: bool>() {
    const C: usize = 3;
    let mut row = [0u8; C];
    let mut j = 0;
    while j < C { row[j] = any_stored_sym(); j += 1; }
    kani::assume(present::<C>(&row) >= 1);
    let min_count: usize = kani::any();
    kani::assume(min_count <= C);
    // a: counts as a fresh build stores them; b: arbitrary stored count (e.g. left behind by
    // `weed --filter-ambig-as-missing`, which saves counts of unambiguous bases only)
    let mut a = mk_array::<1, C>(&[42u64], &[row]);
    let stale: usize = kani::any();
    kani::assume(stale <= C);
    let mut b = mk_array_counts::<1, C>(&[42u64], &[row], &[stale]);
    let ra = a.filter(min_count, AM, &ft_of(FT), false, false, UK);
    let rb = b.filter(min_count, AM, &ft_of(FT), false, false, UK);
    assert!(ra == rb, "same number of removed k-mers whatever counts were stored");
    assert!(a.variants.nrows() == b.variants.nrows(), "same k-mers emitted whatever counts were stored");
    if a.variants.nrows() == 1 && b.variants.nrows() == 1 { assert!(row_of::<C>(&a, 0) == row_of::<C>(&b, 0), "same bases"); }
    if UK { assert!(a.split_kmers.len() == b.split_kmers.len() && a.variant_count.len() == b.variant_count.len(), "same saved table"); 
            if a.variant_count.len() == 1 && b.variant_count.len() == 1 { assert!(a.variant_count[0] == b.variant_count[0], "saved counts do not depend on the counts read"); } }
    kani::cover!(stale < present::<C>(&row) && stale < min_count && a.variants.nrows() == 1, "a stale stored count below the threshold for a k-mer that passes it");
    std::mem::forget(a); std::mem::forget(b);
}
#[kani::proof]
#[kani::unwind(5)]
fn c10_filter_noconst() { filter_ignores_stored_counts::<1, false, false>(); }
#[kani::proof]
#[kani::unwind(5)]
fn c10_filter_nofilter_uk() { filter_ignores_stored_counts::<0, false, true>(); }
#[kani::proof]
#[kani::unwind(5)]
fn c10_filter_noambigorconst_am() { filter_ignores_stored_counts::<3, true, true>(); }
#[kani::proof]
#[kani::unwind(5)]
fn c10_filter_noambig() { filter_ignores_stored_counts::<2, false, false>(); }

/// C10.A.delete: `delete_samples` gives the same table whatever counts were stored (a file weeded with
/// --filter-ambig-as-missing stores counts of unambiguous bases only)
fn delete_ignores_stored_counts<const DEL: usize>() {
    const C: usize = 3;
    let mut row = [0u8; C];
    let mut j = 0;
    while j < C { row[j] = any_stored_sym(); j += 1; }
    kani::assume(present::<C>(&row) >= 1);
    let stale: usize = kani::any();
    kani::assume(stale >= 1 && stale <= C); // a stored row has a positive count
    let mut b = mk_array_counts::<1, C>(&[42u64], &[row], &[stale]);
    let all = ["a", "b", "c"];
    b.delete_samples(&[all[DEL]]);
    let mut left = 0;
    let mut j = 0;
    while j < C { if j != DEL && row[j] != b'-' { left += 1; } j += 1; }
    if left > 0 {
        assert!(b.variants.nrows() == 1 && b.split_kmers.len() == 1 && b.variant_count.len() == 1, "a k-mer still present in a remaining sample is kept whatever count was stored");
        assert!(b.variant_count[0] == left, "the saved count is the number of remaining samples with the k-mer");
        let mut oc = 0;
        let mut j = 0;
        while j < C { if j != DEL { assert!(b.variants[[0, oc]] == row[j], "remaining bases"); oc += 1; } j += 1; }
    } else {
        assert!(b.variants.nrows() == 0 && b.split_kmers.len() == 0 && b.variant_count.len() == 0, "a k-mer only in the deleted sample is gone");
    }
    kani::cover!(left >= 1 && stale < present::<C>(&row), "stored count smaller than the number of bases, k-mer survives");
    kani::cover!(left == 0, "k-mer disappears with the deleted sample");
    std::mem::forget(b);
}
#[kani::proof]
#[kani::unwind(6)]
fn c10_delete_first() { delete_ignores_stored_counts::<0>(); }
#[kani::proof]
#[kani::unwind(6)]
fn c10_delete_middle() { delete_ignores_stored_counts::<1>(); }
#[kani::proof]
#[kani::unwind(6)]
fn c10_delete_last() { delete_ignores_stored_counts::<2>(); }
