//! C10.A: readers ignore the stored per-k-mer counts: `filter` (the only reader of `variant_count`) gives
//! the same result on two arrays with the same k-mers and bases whatever counts are stored.
use super::super::*;
use super::common::*;

fn filter_ignores_stored_counts<const FT: u8, const AM: bool, const UK: bool>() {
    const C: usize = 3;
    let mut row = [0u8; C];
    let mut j = 0;
    while j < C { row[j] = any_stored_sym(); j += 1; }
    kani::assume(present::<C>(&row) >= 1);
    let min_count: usize = kani::any();
    kani::assume(min_count <= C);
    // a: counts as a fresh build stores them; b: arbitrary stored count (e.g. left behind by
    // `weed --filter-ambig-as-missing`, which saves counts of unambiguous bases only)
    let mut a = mk_array::<1, C>(&[42u64], &[row]);
    let stale: usize = kani::any();
    kani::assume(stale <= C);
    let mut b = mk_array_counts::<1, C>(&[42u64], &[row], &[stale]);
    let ra = a.filter(min_count, AM, &ft_of(FT), false, false, UK);
    let rb = b.filter(min_count, AM, &ft_of(FT), false, false, UK);
    assert!(ra == rb, "same number of removed k-mers whatever counts were stored");
    assert!(a.variants.nrows() == b.variants.nrows(), "same k-mers emitted whatever counts were stored");
    if a.variants.nrows() == 1 && b.variants.nrows() == 1 { assert!(row_of::<C>(&a, 0) == row_of::<C>(&b, 0), "same bases"); }
    if UK { assert!(a.split_kmers.len() == b.split_kmers.len() && a.variant_count.len() == b.variant_count.len(), "same saved table"); 
            if a.variant_count.len() == 1 && b.variant_count.len() == 1 { assert!(a.variant_count[0] == b.variant_count[0], "saved counts do not depend on the counts read"); } }
    kani::cover!(stale < present::<C>(&row) && stale < min_count && a.variants.nrows() == 1, "a stale stored count below the threshold for a k-mer that passes it");
    std::mem::forget(a); std::mem::forget(b);
}
#[kani::proof]
#[kani::unwind(5)]
fn c10_filter_noconst() { filter_ignores_stored_counts::<1, false, false>(); }
#[kani::proof]
#[kani::unwind(5)]
fn c10_filter_nofilter_uk() { filter_ignores_stored_counts::<0, false, true>(); }
#[kani::proof]
#[kani::unwind(5)]
fn c10_filter_noambigorconst_am() { filter_ignores_stored_counts::<3, true, true>(); }
#[kani::proof]
#[kani::unwind(5)]
fn c10_filter_noambig() { filter_ignores_stored_counts::<2, false, false>(); }
