//! C07.rt (array -> dict -> array), C03.fasta (write_fasta), C01.nk (n_sample_kmers).
use super::super::*;
use super::common::*;

#[kani::proof]
#[kani::unwind(8)]
fn array_dict_roundtrip_2x3() {
    const C: usize = 3;
    let mut rows = [[0u8; C]; 2];
    let mut i = 0;
    while i < 2 { let mut j = 0; while j < C { rows[i][j] = any_stored_sym(); j += 1; } kani::assume(present::<C>(&rows[i]) >= 1); i += 1; }
    let kmers = [10u64, 20u64];
    let mut a = mk_array::<2, C>(&kmers, &rows);
    a.rc = kani::any();
    // stored counts may be stale: the round trip recomputes them
    let stale: usize = kani::any();
    a.variant_count[0] = stale;
    let d = a.to_dict();
    assert!(d.kmer_len() == a.k && d.rc() == a.rc && d.nsamples() == C && d.ksize() == 2, "dictionary metadata");
    let b = MergeSkaArray::new(&d);
    assert!(b.k == a.k && b.rc == a.rc && b.names.len() == C, "k, strand mode, names kept");
    let mut j = 0;
    while j < C { assert!(b.names[j].as_bytes() == a.names[j].as_bytes(), "names in order"); j += 1; }
    assert!(b.split_kmers.len() == 2 && b.variants.nrows() == 2, "same k-mers");
    let mut r = 0;
    while r < 2 {
        let src = if b.split_kmers[r] == 10 { 0 } else { 1 };
        assert!(b.split_kmers[r] == kmers[src], "key of the original table");
        assert!(row_of::<C>(&b, r) == rows[src], "key -> row map preserved");
        assert!(b.variant_count[r] == present::<C>(&rows[src]), "count = number of samples with the k-mer");
        r += 1;
    }
    assert!(b.split_kmers[0] != b.split_kmers[1], "each k-mer once");
    kani::cover!(rows[0][1] == b'-' && rows[1][2] == b'N', "gap and ambiguity survive");
    std::mem::forget(a); std::mem::forget(d); std::mem::forget(b);
}

/// R rows (concrete per harness) x 3 samples
fn write_fasta_rows<const R: usize>() {
    const C: usize = 3;
    let mut rows = [[0u8; C]; R];
    let mut i = 0;
    while i < R { let mut j = 0; while j < C { rows[i][j] = any_stored_sym(); j += 1; } i += 1; }
    let kmers = [10u64; R];
    let a = mk_array::<R, C>(&kmers, &rows);
    let mut out: Vec<u8> = Vec::with_capacity(32);
    a.write_fasta(&mut out).unwrap();
    // one record per sample in input order, sequence i = column i, all of equal length
    let reclen = 3 + R + 1; // ">x\n" + seq + "\n"
    assert!(out.len() == C * reclen, "one record per sample, all sequences of equal length");
    let names = [b'a', b'b', b'c'];
    let mut j = 0;
    while j < C {
        let o = j * reclen;
        assert!(out[o] == b'>' && out[o + 1] == names[j] && out[o + 2] == b'\n', "record header = sample name, in input order");
        let mut i = 0;
        while i < R { assert!(out[o + 3 + i] == rows[i][j], "sequence i = column i of the table"); i += 1; }
        assert!(out[o + 3 + R] == b'\n', "record terminated");
        j += 1;
    }
    kani::cover!(true, "alignment written");
    std::mem::forget(a); std::mem::forget(out);
}
#[kani::proof]
#[kani::unwind(8)]
fn write_fasta_0x3() { write_fasta_rows::<0>(); }
#[kani::proof]
#[kani::unwind(8)]
fn write_fasta_1x3() { write_fasta_rows::<1>(); }
#[kani::proof]
#[kani::unwind(8)]
fn write_fasta_2x3() { write_fasta_rows::<2>(); }

#[kani::proof]
#[kani::unwind(8)]
fn n_sample_kmers_2x3() {
    const C: usize = 3;
    let mut rows = [[0u8; C]; 2];
    let mut i = 0;
    while i < 2 { let mut j = 0; while j < C { rows[i][j] = any_stored_sym(); j += 1; } i += 1; }
    let a = mk_array::<2, C>(&[10u64, 20u64], &rows);
    let n = a.n_sample_kmers();
    assert!(n.len() == C && a.ksize() == 2 && a.nsamples() == C, "shape");
    let mut j = 0;
    while j < C {
        let exp = (rows[0][j] != b'-') as i32 + (rows[1][j] != b'-') as i32;
        assert!(n[j] == exp, "per-sample count = number of non-gap cells in the column");
        j += 1;
    }
    kani::cover!(n[0] == 2 && n[1] == 0, "full and empty column");
    std::mem::forget(a);
}
