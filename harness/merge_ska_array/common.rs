//! Builders and specification helpers for `MergeSkaArray` harnesses (state is constructed directly).
#![allow(dead_code)]
use super::super::*;
use crate::verif_support::*;

pub fn names_n(n: usize) -> Vec<String> {
    let all = ["a", "b", "c", "d"];
    let mut v = Vec::with_capacity(n);
    let mut i = 0;
    while i < n { v.push(all[i].to_string()); i += 1; }
    v
}

/// symbolic symbol of the stored alphabet: A/C/G/T, gap, and the 11 ambiguity codes (upper case)
pub fn any_stored_sym() -> u8 {
    let c: u8 = kani::any();
    kani::assume(matches!(c, b'A' | b'C' | b'G' | b'T' | b'-' | b'N' | b'R' | b'Y' | b'S' | b'W' | b'K' | b'M' | b'B' | b'D' | b'H' | b'V'));
    c
}
/// symbolic unambiguous symbol or gap
pub fn any_plain_sym() -> u8 {
    let c: u8 = kani::any();
    kani::assume(matches!(c, b'A' | b'C' | b'G' | b'T' | b'-'));
    c
}
/// specification of "ambiguous": an IUPAC letter other than A/C/G/T/U (gap is not ambiguous)
pub fn spec_amb(b: u8) -> bool { !matches!(b, b'A' | b'C' | b'G' | b'T' | b'U' | b'-' | b'a' | b'c' | b'g' | b't' | b'u') }

/// array with R rows x C columns built directly; counts = number of non-gap symbols (what a fresh build stores)
pub fn mk_array<const R: usize, const C: usize>(kmers: &[u64; R], rows: &[[u8; C]; R]) -> MergeSkaArray<u64> {
    let mut data = Vec::with_capacity(R * C);
    let mut counts = Vec::with_capacity(R);
    let mut ks = Vec::with_capacity(R);
    let mut i = 0;
    while i < R {
        let mut n = 0;
        let mut j = 0;
        while j < C { data.push(rows[i][j]); if rows[i][j] != b'-' { n += 1; } j += 1; }
        counts.push(n);
        ks.push(kmers[i]);
        i += 1;
    }
    MergeSkaArray::<u64> { k: 7, rc: true, names: names_n(C), split_kmers: ks, variants: Array2::from_shape_vec((R, C), data).unwrap(), variant_count: counts, ska_version: String::new(), k_bits: 64 }
}
/// same, with explicit (possibly stale) counts
pub fn mk_array_counts<const R: usize, const C: usize>(kmers: &[u64; R], rows: &[[u8; C]; R], cnts: &[usize; R]) -> MergeSkaArray<u64> {
    let mut a = mk_array::<R, C>(kmers, rows);
    let mut v = Vec::with_capacity(R);
    let mut i = 0;
    while i < R { v.push(cnts[i]); i += 1; }
    a.variant_count = v;
    a
}
pub fn present<const C: usize>(row: &[u8; C]) -> usize { let mut n = 0; let mut j = 0; while j < C { if row[j] != b'-' { n += 1; } j += 1; } n }
pub fn present_unamb<const C: usize>(row: &[u8; C]) -> usize { let mut n = 0; let mut j = 0; while j < C { if row[j] != b'-' && !spec_amb(row[j]) { n += 1; } j += 1; } n }
/// number of distinct symbols among the eligible ones
pub fn distinct<const C: usize>(row: &[u8; C], eligible: impl Fn(u8) -> bool) -> usize {
    let mut n = 0;
    let mut i = 0;
    while i < C {
        if eligible(row[i]) {
            let mut seen = false;
            let mut j = 0;
            while j < i { if row[j] == row[i] { seen = true; } j += 1; }
            if !seen { n += 1; }
        }
        i += 1;
    }
    n
}
/// site filter predicate written from the property text. ft: 0 none, 1 no-const, 2 no-ambig, 3 no-ambig-or-const
pub fn site_passes<const C: usize>(row: &[u8; C], ft: u8, no_gap_only: bool) -> bool {
    match ft {
        0 => true,
        1 => distinct::<C>(row, |b| !(no_gap_only && b == b'-')) >= 2,
        2 => { let mut ok = true; let mut j = 0; while j < C { if spec_amb(row[j]) { ok = false; } j += 1; } ok }
        _ => distinct::<C>(row, |b| matches!(b, b'A' | b'C' | b'G' | b'T') || (b == b'-' && !no_gap_only)) >= 2,
    }
}
pub fn ft_of(ft: u8) -> FilterType { match ft { 0 => FilterType::NoFilter, 1 => FilterType::NoConst, 2 => FilterType::NoAmbig, _ => FilterType::NoAmbigOrConst } }
/// row i of the variants table as an array
pub fn row_of<const C: usize>(a: &MergeSkaArray<u64>, i: usize) -> [u8; C] {
    let mut r = [0u8; C];
    let mut j = 0;
    while j < C { r[j] = a.variants[[i, j]]; j += 1; }
    r
}
pub fn count_at(a: &MergeSkaArray<u64>, i: usize) -> usize { a.variant_count[i] }
pub fn kmer_at(a: &MergeSkaArray<u64>, i: usize) -> u64 { a.split_kmers[i] }
pub fn counts_len(a: &MergeSkaArray<u64>) -> usize { a.variant_count.len() }
pub fn nrows_of(a: &MergeSkaArray<u64>) -> usize { a.variants.nrows() }
pub fn ncols_of(a: &MergeSkaArray<u64>) -> usize { a.variants.ncols() }
pub fn nkmers_of(a: &MergeSkaArray<u64>) -> usize { a.split_kmers.len() }
pub fn name_of(a: &MergeSkaArray<u64>, j: usize) -> &String { &a.names[j] }
pub fn nnames_of(a: &MergeSkaArray<u64>) -> usize { a.names.len() }
