//! C14.pair / C14.all: SNP distance and k-mer mismatch proportion.
use super::super::*;
use super::common::*;

fn spec_pair<const R: usize>(c1: &[u8; R], c2: &[u8; R], constant: f64) -> (f64, f64) {
    let mut snps = 0.0;
    let mut both = 0.0;
    let mut one = 0.0;
    let mut i = 0;
    while i < R {
        let p1 = c1[i] != b'-';
        let p2 = c2[i] != b'-';
        if p1 && p2 { both += 1.0; if c1[i] != c2[i] { snps += 1.0; } }
        else if p1 != p2 { one += 1.0; }
        i += 1;
    }
    let denom = constant + both + one;
    (snps, if denom == 0.0 { 0.0 } else { one / denom })
}

/// two columns of 4 symbols over {A,C,G,T,-}
#[kani::proof]
#[kani::unwind(7)]
fn variant_dist_pair_r4() {
    const R: usize = 4;
    let mut c1 = [0u8; R];
    let mut c2 = [0u8; R];
    let mut i = 0;
    while i < R { c1[i] = any_plain_sym(); c2[i] = any_plain_sym(); i += 1; }
    let cst: u8 = kani::any();
    kani::assume(cst <= 3);
    let constant = cst as f64;
    let v1 = c1.to_vec();
    let v2 = c2.to_vec();
    let (d, m) = MergeSkaArray::<u64>::variant_dist(&ArrayView::from(&v1), &ArrayView::from(&v2), constant);
    let (ed, em) = spec_pair::<R>(&c1, &c2, constant);
    assert!(d == ed, "distance = number of k-mers present in both samples with different middle bases");
    assert!(m == em, "mismatch = |exactly one| / (constant + |both| + |exactly one|), 0 if empty");
    assert!(m >= 0.0 && m <= 1.0, "mismatch proportion in [0,1]");
    let (d2, m2) = MergeSkaArray::<u64>::variant_dist(&ArrayView::from(&v2), &ArrayView::from(&v1), constant);
    assert!(d2 == d && m2 == m, "symmetric in its arguments");
    if c1 == c2 { assert!(d == 0.0 && m == 0.0, "identical samples at distance 0 with 0 mismatches"); }
    kani::cover!(d == 2.0 && m > 0.0 && m < 1.0, "two SNPs and a partial mismatch");
    kani::cover!(m == 1.0, "disjoint k-mer sets");
    std::mem::forget(v1); std::mem::forget(v2);
}

/// all pairs of a 2 x 3 table: row i of the result holds pairs (i,j), j>i, each unordered pair once
#[kani::proof]
#[kani::unwind(8)]
fn distance_all_pairs_2x3() {
    const C: usize = 3;
    let mut rows = [[0u8; C]; 2];
    let mut i = 0;
    while i < 2 { let mut j = 0; while j < C { rows[i][j] = any_plain_sym(); j += 1; } i += 1; }
    let kmers = [10u64, 20u64];
    let a = mk_array::<2, C>(&kmers, &rows);
    let cst: u8 = kani::any();
    kani::assume(cst <= 2);
    let d = a.distance(cst as f64);
    assert!(d.len() == C, "one result row per sample");
    let mut i = 0;
    while i < C {
        assert!(d[i].len() == C - 1 - i, "row i holds the pairs (i,j) with j>i: each unordered pair exactly once");
        let mut j = i + 1;
        while j < C {
            let ci = [rows[0][i], rows[1][i]];
            let cj = [rows[0][j], rows[1][j]];
            let e = spec_pair::<2>(&ci, &cj, cst as f64);
            assert!(d[i][j - i - 1] == e, "pair value = pairwise specification");
            j += 1;
        }
        i += 1;
    }
    kani::cover!(d[0][1].0 == 2.0, "samples 0 and 2 differ at both k-mers");
    std::mem::forget(a); std::mem::forget(d);
}

/// the table handed to `distance` may have no row left (every k-mer constant or below the frequency threshold):
/// every unordered pair is still reported exactly once, at distance 0 with 0 mismatches
#[kani::proof]
#[kani::unwind(8)]
fn distance_all_pairs_0x3() {
    const C: usize = 3;
    let rows: [[u8; C]; 0] = [];
    let kmers: [u64; 0] = [];
    let a = mk_array::<0, C>(&kmers, &rows);
    let cst: u8 = kani::any();
    kani::assume(cst <= 2);
    let d = a.distance(cst as f64);
    assert!(d.len() == C, "one result row per sample");
    let mut i = 0;
    while i < C {
        assert!(d[i].len() == C - 1 - i, "row i holds the pairs (i,j) with j>i: each unordered pair exactly once");
        let mut j = i + 1;
        while j < C {
            assert!(d[i][j - i - 1].0 == 0.0 && d[i][j - i - 1].1 == 0.0, "no variable k-mer left: distance 0 and mismatch 0");
            j += 1;
        }
        i += 1;
    }
    kani::cover!(cst == 2, "two constant sites, no variable row");
    std::mem::forget(a); std::mem::forget(d);
}
