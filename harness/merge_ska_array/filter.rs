//! C06: `MergeSkaArray::filter` emits exactly the rows that pass the requested filters.
use super::super::*;
use super::common::*;

/// one row, all symbols symbolic, flags concrete per harness (const generics)
fn filter_row<const C: usize, const FT: u8, const AM: bool, const MK: bool, const NG: bool, const UK: bool>() {
    let mut row = [0u8; C];
    let mut j = 0;
    while j < C { row[j] = any_stored_sym(); j += 1; }
    kani::assume(present::<C>(&row) >= 1); // stored rows have at least one base
    let min_count: usize = kani::any();
    kani::assume(min_count <= C + 1);
    let kmers = [42u64];
    let mut a = mk_array::<1, C>(&kmers, &[row]);
    let removed = a.filter(min_count, AM, &ft_of(FT), MK, NG, UK);
    // specification
    let cnt = if AM { present_unamb::<C>(&row) } else { present::<C>(&row) };
    let thr = if min_count > 1 { min_count } else { 1 };
    let keep = cnt >= thr && site_passes::<C>(&row, FT, NG);
    if keep {
        assert!(a.variants.nrows() == 1 && a.variants.ncols() == C, "passing row is emitted");
        let got = row_of::<C>(&a, 0);
        let mut j = 0;
        while j < C {
            let exp = if MK && spec_amb(row[j]) { b'N' } else { row[j] };
            assert!(got[j] == exp, "emitted column shows the stored bases (ambiguity codes as N under mask)");
            j += 1;
        }
        assert!(a.variant_count.len() == 1 && a.variant_count[0] == cnt, "count stays aligned");
        assert!(removed == 0, "nothing reported as removed");
    } else {
        assert!(a.variants.nrows() == 0, "failing row is not emitted");
        assert!(a.variant_count.len() == 0, "counts stay aligned");
        if !AM || cnt >= 1 { assert!(removed == 1, "one row reported as removed"); }
    }
    if UK { assert!(a.split_kmers.len() == a.variants.nrows() && (a.split_kmers.len() == 0 || a.split_kmers[0] == 42), "k-mer list stays aligned"); }
    assert!(a.names.len() == C, "names untouched");
    kani::cover!(keep, "a row passes");
    kani::cover!(!keep && cnt >= thr, "a row is dropped by the site filter");
    kani::cover!(!keep && cnt < thr && min_count >= 2, "a row is dropped by the frequency threshold");
    std::mem::forget(a);
}

macro_rules! gen_filter_row {
    ($($name:ident: $c:expr, $unw:expr, $ft:expr, $am:expr, $mk:expr, $ng:expr, $uk:expr;)*) => { $(
        #[kani::proof]
        #[kani::unwind($unw)]
        fn $name() { filter_row::<$c, $ft, $am, $mk, $ng, $uk>(); }
    )* };
}
include!("filter_gen.inc");

/// C06.align: two rows, kept rows keep their order; k-mers, variants and counts stay row-aligned
fn filter_two_rows<const FT: u8, const AM: bool, const MK: bool, const NG: bool, const UK: bool>() {
    const C: usize = 2;
    let mut rows = [[0u8; C]; 2];
    let mut i = 0;
    while i < 2 { let mut j = 0; while j < C { rows[i][j] = any_stored_sym(); j += 1; } kani::assume(present::<C>(&rows[i]) >= 1); i += 1; }
    let min_count: usize = kani::any();
    kani::assume(min_count <= C);
    let kmers = [10u64, 20u64];
    let mut a = mk_array::<2, C>(&kmers, &rows);
    // exact counts, no empty row: recounting without the ambiguity switch is the identity (lemma decided by C06.cnt)
    crate::verif_support::counts_exact_lemma(!AM);
    let removed = a.filter(min_count, AM, &ft_of(FT), MK, NG, UK);
    let thr = if min_count > 1 { min_count } else { 1 };
    let mut out = 0;
    let mut n_loop_removed = 0;
    let mut i = 0;
    while i < 2 {
        let cnt = if AM { present_unamb::<C>(&rows[i]) } else { present::<C>(&rows[i]) };
        let keep = cnt >= thr && site_passes::<C>(&rows[i], FT, NG);
        if keep {
            assert!(out < a.variants.nrows(), "passing row is emitted, in order");
            let got = row_of::<C>(&a, out);
            let mut j = 0;
            while j < C { let exp = if MK && spec_amb(rows[i][j]) { b'N' } else { rows[i][j] }; assert!(got[j] == exp, "row content"); j += 1; }
            assert!(a.variant_count[out] == cnt, "count aligned with its row");
            if UK { assert!(a.split_kmers[out] == kmers[i], "k-mer aligned with its row"); }
            out += 1;
        } else if !AM || cnt >= 1 { n_loop_removed += 1; }
        i += 1;
    }
    assert!(a.variants.nrows() == out && a.variant_count.len() == out, "no other row is emitted");
    if UK { assert!(a.split_kmers.len() == out, "k-mer list has one entry per emitted row"); }
    assert!(removed == n_loop_removed, "number of removed rows");
    kani::cover!(out == 1 && a.variant_count.len() == 1, "first row dropped or second row dropped");
    kani::cover!(out == 2, "both rows kept");
    std::mem::forget(a);
}
macro_rules! gen_filter_two {
    ($($name:ident: $ft:expr, $am:expr, $mk:expr, $ng:expr, $uk:expr;)*) => { $(
        #[kani::proof]
        #[kani::unwind(8)]
        fn $name() { filter_two_rows::<$ft, $am, $mk, $ng, $uk>(); }
    )* };
}
gen_filter_two! {
    filter2_noconst_plain: 1, false, false, false, false;
    filter2_noconst_uk: 1, false, false, false, true;
    filter2_nofilter_am_uk: 0, true, false, false, true;
    filter2_noambig_mask: 2, false, true, false, false;
    filter2_noambigorconst_all: 3, true, true, true, true;
    filter2_noconst_ng: 1, false, false, true, false;
    filter2_noambigorconst_plain: 3, false, false, false, false;
    filter2_nofilter_mask_uk: 0, false, true, false, true;
}

/// C06.cnt: update_counts recounts and removes empty rows (both modes)
#[kani::proof]
#[kani::unwind(8)]
fn update_counts_2x3() {
    const C: usize = 3;
    let mut rows = [[0u8; C]; 2];
    let mut i = 0;
    while i < 2 { let mut j = 0; while j < C { rows[i][j] = any_stored_sym(); j += 1; } i += 1; }
    let am: bool = kani::any();
    let stale: [usize; 2] = [kani::any(), kani::any()];
    let kmers = [10u64, 20u64];
    let mut a = mk_array_counts::<2, C>(&kmers, &rows, &stale);
    a.update_counts(am);
    let mut out = 0;
    let mut i = 0;
    while i < 2 {
        let cnt = if am { present_unamb::<C>(&rows[i]) } else { present::<C>(&rows[i]) };
        if cnt > 0 {
            assert!(out < a.variants.nrows(), "non-empty row kept");
            assert!(row_of::<C>(&a, out) == rows[i], "row content");
            assert!(a.variant_count[out] == cnt && a.split_kmers[out] == kmers[i], "count and k-mer aligned");
            out += 1;
        }
        i += 1;
    }
    assert!(a.variants.nrows() == out && a.variant_count.len() == out && a.split_kmers.len() == out, "empty rows removed, nothing else");
    kani::cover!(out == 1 && am, "a row with only ambiguous bases removed");
    std::mem::forget(a);
}
