//! C08.del / C08.refuse: `MergeSkaArray::delete_samples`.
use super::super::*;
use super::common::*;

/// symbolic non-empty proper subset of the three samples of a 2x3 table
fn delete_subset_2x3<const MASK: u8, const REV: bool>() {
    const C: usize = 3;
    let mut rows = [[0u8; C]; 2];
    let mut i = 0;
    while i < 2 { let mut j = 0; while j < C { rows[i][j] = any_stored_sym(); j += 1; } kani::assume(present::<C>(&rows[i]) >= 1); i += 1; }
    let kmers = [10u64, 20u64];
    let mut a = mk_array::<2, C>(&kmers, &rows);
    // the subset to delete and the order in which names are passed are concrete per harness
    let del: [bool; C] = [MASK & 1 != 0, MASK & 2 != 0, MASK & 4 != 0];
    let ndel = del[0] as usize + del[1] as usize + del[2] as usize;
    let rev: bool = REV;
    let all = ["a", "b", "c"];
    let mut list: Vec<&str> = Vec::with_capacity(C);
    let mut t = 0;
    while t < C { let j = if rev { C - 1 - t } else { t }; if del[j] { list.push(all[j]); } t += 1; }
    a.delete_samples(&list);
    // specification
    assert!(a.names.len() == C - ndel && a.variants.ncols() == C - ndel, "remaining samples only");
    let mut out_col = 0;
    let mut j = 0;
    while j < C { if !del[j] { assert!(a.names[out_col].as_bytes() == all[j].as_bytes(), "remaining samples keep their order"); out_col += 1; } j += 1; }
    let mut out = 0;
    let mut i = 0;
    while i < 2 {
        let mut cnt = 0;
        let mut j = 0;
        while j < C { if !del[j] && rows[i][j] != b'-' { cnt += 1; } j += 1; }
        if cnt > 0 {
            assert!(out < a.variants.nrows(), "k-mer still present in a remaining sample is kept");
            let mut oc = 0;
            let mut j = 0;
            while j < C { if !del[j] { assert!(a.variants[[out, oc]] == rows[i][j], "remaining samples keep all their bases"); oc += 1; } j += 1; }
            assert!(a.variant_count[out] == cnt && a.split_kmers[out] == kmers[i], "count recomputed, k-mer aligned");
            out += 1;
        }
        i += 1;
    }
    assert!(a.variants.nrows() == out && a.variant_count.len() == out && a.split_kmers.len() == out, "k-mers found only in deleted samples are gone, nothing else");
    kani::cover!(out == 1, "one k-mer disappears with the deleted samples");
    kani::cover!(out == 2, "both k-mers survive");
    std::mem::forget(a);
}
macro_rules! gen_delete { ($($name:ident: $m:expr, $r:expr;)*) => { $(
    #[kani::proof]
    #[kani::unwind(8)]
    fn $name() { delete_subset_2x3::<$m, $r>(); }
)* }; }
gen_delete! {
    delete_m1_fwd: 1, false; delete_m2_fwd: 2, false; delete_m4_fwd: 4, false;
    delete_m3_fwd: 3, false; delete_m5_fwd: 5, false; delete_m6_fwd: 6, false;
    delete_m3_rev: 3, true; delete_m5_rev: 5, true; delete_m6_rev: 6, true;
}

fn delete_refused(which: u8) {
    const C: usize = 3;
    let mut rows = [[0u8; C]; 2];
    let mut i = 0;
    while i < 2 { let mut j = 0; while j < C { rows[i][j] = any_stored_sym(); j += 1; } kani::assume(present::<C>(&rows[i]) >= 1); i += 1; }
    let kmers = [10u64, 20u64];
    let mut a = mk_array::<2, C>(&kmers, &rows);
    let list: Vec<&str> = match which {
        0 => vec!["a", "x"],          // a sample that is not in the file
        1 => vec!["a", "b", "c"],     // all samples
        _ => Vec::new(),              // none
    };
    kani::cover!(true, "call reached");
    a.delete_samples(&list);
    assert!(false, "must-not-reach: delete_samples returned for an absent name, all names or no name");
}
#[kani::proof]
#[kani::unwind(8)]
fn delete_refuses_absent() { delete_refused(0); }
#[kani::proof]
#[kani::unwind(8)]
fn delete_refuses_all() { delete_refused(1); }
#[kani::proof]
#[kani::unwind(8)]
fn delete_refuses_none() { delete_refused(2); }
