//! C13.weed: `MergeSkaArray::weed` removes exactly the rows whose k-mer is in the weed set (or keeps
//! exactly those with `reverse`), keeping bases, counts and k-mers aligned.
use super::super::*;
use super::common::*;
use crate::ska_ref::verif_harness::common::{mk_ref, ref_kmer};

const UNI: [u64; 3] = [10, 20, 30];

fn weed_ref(w: &[usize; 2], n: usize) -> RefSka<u64> {
    let mut kms = Vec::with_capacity(2);
    let mut t = 0;
    while t < 2 { if t < n { kms.push(ref_kmer(UNI[w[t]], 0, 3 + t, 0, false)); } t += 1; }
    mk_ref(7, kms, vec![vec![b'A'; 8]], vec!["w".to_string()], Vec::new(), false)
}

fn weed_case<const REVERSE: bool, const TWICE: bool>() {
    const C: usize = 2;
    let mut rows = [[0u8; C]; 2];
    let mut i = 0;
    while i < 2 { let mut j = 0; while j < C { rows[i][j] = any_stored_sym(); j += 1; } kani::assume(present::<C>(&rows[i]) >= 1); i += 1; }
    // table k-mers: two different values of the universe
    let k0: usize = 0; let k1: usize = kani::any();
    kani::assume(k1 == 1 || k1 == 2);
    let kmers = [UNI[k0], UNI[k1]];
    let mut a = mk_array::<2, C>(&kmers, &rows);
    // weed list: 0..=2 values of the universe (duplicates allowed: overlapping weed sequences)
    let n: usize = kani::any(); kani::assume(n <= 2);
    let w: [usize; 2] = [kani::any(), kani::any()];
    kani::assume(w[0] < 3 && w[1] < 3);
    let wr = weed_ref(&w, n);
    a.weed(&wr, REVERSE);
    let mut out = 0;
    let mut i = 0;
    while i < 2 {
        let ki = if i == 0 { k0 } else { k1 };
        let in_weed = (n >= 1 && w[0] == ki) || (n >= 2 && w[1] == ki);
        let keep = if REVERSE { in_weed } else { !in_weed };
        if keep {
            assert!(out < a.variants.nrows(), "surviving k-mer kept, in order");
            assert!(row_of::<C>(&a, out) == rows[i], "surviving k-mer keeps all sample bases");
            assert!(a.split_kmers[out] == kmers[i] && a.variant_count[out] == present::<C>(&rows[i]), "k-mer and count aligned");
            out += 1;
        }
        i += 1;
    }
    assert!(a.variants.nrows() == out && a.split_kmers.len() == out && a.variant_count.len() == out, "exactly the weed k-mers are removed (kept with reverse)");
    assert!(a.names.len() == C && a.names[0].as_bytes() == b"a" && a.names[1].as_bytes() == b"b", "sample names unchanged");
    if TWICE {
        // weeding a second time changes nothing
        let before = out;
        let r0 = if out > 0 { Some((a.split_kmers[0], row_of::<C>(&a, 0))) } else { None };
        a.weed(&wr, REVERSE);
        assert!(a.variants.nrows() == before && a.split_kmers.len() == before && a.variant_count.len() == before, "weeding a second time removes nothing");
        if let Some((k, r)) = r0 { assert!(a.split_kmers[0] == k && row_of::<C>(&a, 0) == r, "weeding a second time changes nothing"); }
    }
    kani::cover!(out == 1, "one row removed");
    kani::cover!(out == 0 && n == 2, "everything removed");
    kani::cover!(out == 2, "nothing removed");
    std::mem::forget(a); std::mem::forget(wr);
}
#[kani::proof]
#[kani::unwind(8)]
fn weed_forward_2x2() { weed_case::<false, false>(); }
#[kani::proof]
#[kani::unwind(8)]
fn weed_reverse_2x2() { weed_case::<true, false>(); }
#[kani::proof]
#[kani::unwind(8)]
fn weed_forward_twice_2x2() { weed_case::<false, true>(); }
#[kani::proof]
#[kani::unwind(8)]
fn weed_reverse_twice_2x2() { weed_case::<true, true>(); }
