//! Shared helpers for harness modules (specification-side code only; nothing here is ska code).
#![allow(dead_code)]

/// symbolic byte from the FASTA alphabet of the properties: A/C/G/T/N in either case
pub fn any_nt() -> u8 {
    let c: u8 = kani::any();
    kani::assume(c == b'A' || c == b'C' || c == b'G' || c == b'T' || c == b'N' || c == b'a' || c == b'c' || c == b'g' || c == b't' || c == b'n');
    c
}
/// symbolic valid base (no N) in either case
pub fn any_base() -> u8 {
    let c: u8 = kani::any();
    kani::assume(c == b'A' || c == b'C' || c == b'G' || c == b'T' || c == b'a' || c == b'c' || c == b'g' || c == b't');
    c
}
/// symbolic upper-case valid base
pub fn any_upper_base() -> u8 {
    let c: u8 = kani::any();
    kani::assume(c == b'A' || c == b'C' || c == b'G' || c == b'T');
    c
}
/// specification of the two-bit code: A=0 C=1 T=2 G=3 (case-insensitive)
pub fn enc(b: u8) -> u64 { match b | 0x20 { b'a' => 0, b'c' => 1, b't' => 2, _ => 3 } }
pub fn is_n(b: u8) -> bool { (b | 0x20) == b'n' }
pub fn is_letter(b: u8) -> bool { (b >= b'a' && b <= b'z') || (b >= b'A' && b <= b'Z') }
pub fn upper(b: u8) -> u8 { if b >= b'a' && b <= b'z' { b - 32 } else { b } }
/// complement of an upper-case base
pub fn comp(b: u8) -> u8 { match b { b'A' => b'T', b'C' => b'G', b'G' => b'C', b'T' => b'A', x => x } }

// IUPAC codes as 4-bit sets: bit0=A bit1=C bit2=G bit3=T (independent specification)
pub fn spec_set(code: u8) -> Option<u8> {
    // upper-case only
    Some(match code {
        b'A' => 0b0001,
        b'C' => 0b0010,
        b'G' => 0b0100,
        b'T' => 0b1000,
        b'R' => 0b0101, // A G
        b'Y' => 0b1010, // C T
        b'S' => 0b0110, // C G
        b'W' => 0b1001, // A T
        b'K' => 0b1100, // G T
        b'M' => 0b0011, // A C
        b'B' => 0b1110, // C G T
        b'D' => 0b1101, // A G T
        b'H' => 0b1011, // A C T
        b'V' => 0b0111, // A C G
        b'N' => 0b1111,
        _ => return None,
    })
}
pub fn spec_code(set: u8) -> u8 {
    match set {
        0b0001 => b'A',
        0b0010 => b'C',
        0b0100 => b'G',
        0b1000 => b'T',
        0b0101 => b'R',
        0b1010 => b'Y',
        0b0110 => b'S',
        0b1001 => b'W',
        0b1100 => b'K',
        0b0011 => b'M',
        0b1110 => b'B',
        0b1101 => b'D',
        0b1011 => b'H',
        0b0111 => b'V',
        0b1111 => b'N',
        _ => 0,
    }
}

// ---------------------------------------------------------------------------------------------
// Environment stubs (switched on by a harness; the early-return lines are inserted into the overlay
// copy of the I/O functions by lib/overlay.py: ENV_STUBS)
// ---------------------------------------------------------------------------------------------
// NOTE: all flags live in ONE static struct with a non-zero magic field. Separate `static mut X: usize = 0`
// items were observed to alias, under Kani 0.68, with promoted constants of the same bytes (writing 1 to
// such a static turned the shared zero-capacity constant of `Vec::new()` into 1).
struct Stubs { magic: u64, io: bool, save_calls: usize, rec_distance: bool, exp_constant: f64, exp_rows: usize, provider: bool, writer_off: bool, counts_lemma: bool, entries: [(u64, u8); 32], aln_on: bool, aln: [[u8; 4]; 4], arr_on: bool, arr_n: [usize; 2], arr_cells: [[(u64, u8); 3]; 2], rec_on: bool, rec_names: [u8; 3], rec_nn: usize, rec_rows: usize, rec_kmers: [u64; 3], rec_cells: [[u8; 2]; 3] }
static mut ST: Stubs = Stubs { magic: 0x5ca1_ab1e_0dd_ba11, io: false, save_calls: 0, rec_distance: false, exp_constant: -1.0, exp_rows: 0, provider: false, writer_off: false, counts_lemma: false, entries: [(7, b'A'); 32], aln_on: false, aln: [[b'-'; 4]; 4], arr_on: false, arr_n: [0; 2], arr_cells: [[(0, b'-'); 3]; 2], rec_on: false, rec_names: [0; 3], rec_nn: 0, rec_rows: 0, rec_kmers: [0; 3], rec_cells: [[0; 2]; 3] };
pub fn stub_io(on: bool) { unsafe { ST.io = on; ST.save_calls = 0; } }
pub fn stub_io_active() -> bool { unsafe { ST.magic == 0x5ca1_ab1e_0dd_ba11 && ST.io } }
pub fn record_save() { unsafe { ST.save_calls += 1; } }
pub fn save_calls() -> usize { unsafe { ST.save_calls } }
/// arm the recorder that replaces `MergeSkaArray::distance`: it compares what `ska distance` hands to the
/// pairwise computation with the expectation and ends the path there (the text output that follows is
/// formatting of f64 values and is outside every claim)
pub fn expect_distance(constant: f64, rows: usize) { unsafe { ST.rec_distance = true; ST.exp_constant = constant; ST.exp_rows = rows; } }
pub fn rec_distance_active() -> bool { unsafe { ST.rec_distance } }
pub fn record_distance(constant: f64, rows: usize) {
    unsafe {
        assert!(constant == ST.exp_constant, "constant = constant sites among the k-mers that pass the frequency threshold");
        assert!(rows == ST.exp_rows, "rows compared = k-mers that pass the frequency threshold and are not constant");
    }
    kani::assume(false);
}
pub fn dict_provider(on: bool) { unsafe { ST.provider = on; } }
pub fn dict_provider_active() -> bool { unsafe { ST.provider } }
/// dictionary provider standing in for `SkaDict::new` (file parsing is C01's subject, not C11's): sample i
/// gets the single entry registered here
pub fn provide_entry(i: usize, kmer: u64, base: u8) { unsafe { ST.entries[i] = (kmer, base); } }
pub fn provided_entry(i: usize) -> (u64, u8) { unsafe { ST.entries[i] } }
/// switch the alignment writer off (C11.pool only: the writer is C04's subject and its loops dominate the cost)
pub fn writer_stub(on: bool) { unsafe { ST.writer_off = on; } }
pub fn writer_stub_active() -> bool { unsafe { ST.writer_off } }
/// Lemma use (assume-guarantee): `update_counts(false)` is the identity on an array whose stored counts are
/// exact and that has no empty row -- this is what C06.cnt (update_counts_2x3) decides. A harness that builds
/// such an array may switch the recount off to keep chained filter passes tractable (C14.wrap only).
pub fn counts_exact_lemma(on: bool) { unsafe { ST.counts_lemma = on; } }
pub fn counts_exact_lemma_active() -> bool { unsafe { ST.counts_lemma } }
/// Alignment provider (C05.vcf only): `AlnWriter::write_split_kmer` only remembers the tag byte it is given and
/// `AlnWriter::finalise` copies the alignment registered for that tag into the writer's output, so that
/// `RefSka::write_vcf` is driven with an arbitrary mapped alignment (what the real writer produces is C04's subject).
/// The tag (not the call order) identifies the sample, so the stub behaves the same under real rayon in the replay.
pub fn aln_provider(on: bool) { unsafe { ST.aln_on = on; } }
pub fn aln_provider_active() -> bool { unsafe { ST.aln_on } }
pub fn provide_aln_cell(sample: usize, pos: usize, c: u8) { unsafe { ST.aln[sample][pos] = c; } }
pub fn provided_alignment(tag: usize, out: &mut Vec<u8>) {
    let s = if tag >= b'a' as usize && tag < b'a' as usize + 4 { tag - b'a' as usize } else { 0 };
    let mut i = 0;
    while i < crate::verif_models::bounds::RCAP && i < 4 { if i < out.len() { unsafe { out[i] = ST.aln[s][i]; } } i += 1; }
}
/// Array provider standing in for `MergeSkaArray::load` (C07.wrap only; persistence is C09's subject and not encodable):
/// the file named "<i>.skf" is a single-sample array (sample name "f<i>") with the k-mers/bases registered here
pub fn array_provider(on: bool) { unsafe { ST.arr_on = on; } }
pub fn array_provider_active() -> bool { unsafe { ST.arr_on } }
pub fn provide_array(file: usize, n: usize, cells: [(u64, u8); 3]) { unsafe { ST.arr_n[file] = n; ST.arr_cells[file] = cells; } }
pub fn provided_file_index(filename: &str) -> usize { let b = filename.as_bytes(); if b.len() > 0 && b[0] == b'1' { 1 } else { 0 } }
pub fn provided_array_len(file: usize) -> usize { unsafe { ST.arr_n[file] } }
pub fn provided_array_cell(file: usize, i: usize) -> (u64, u8) { unsafe { ST.arr_cells[file][i] } }
/// Save recorder (C07.wrap): what `MergeSkaArray::save` is asked to write (first byte of every sample name, k-mers, cells)
pub fn save_recorder(on: bool) { unsafe { ST.rec_on = on; } }
pub fn save_recorder_active() -> bool { unsafe { ST.rec_on } }
pub fn rec_dims(names: usize, rows: usize) { unsafe { ST.rec_nn = names; ST.rec_rows = rows; } }
pub fn rec_name(i: usize, b: u8) { unsafe { ST.rec_names[i] = b; } }
pub fn rec_cell(r: usize, c: usize, v: u8, kmer: u64) { unsafe { ST.rec_cells[r][c] = v; ST.rec_kmers[r] = kmer; } }
pub fn recorded_dims() -> (usize, usize) { unsafe { (ST.rec_nn, ST.rec_rows) } }
pub fn recorded_name(i: usize) -> u8 { unsafe { ST.rec_names[i] } }
pub fn recorded_row(r: usize) -> (u64, [u8; 2]) { unsafe { (ST.rec_kmers[r], ST.rec_cells[r]) } }
