//! C12.cnt: the counting filter never loses a k-mer that reaches --min-count, counting a k-mer together
//! with its reverse complement when strands are merged. Fed by real `SplitKmer`s with the real ntHash.
use super::super::*;
use crate::verif_support::*;
use crate::QualFilter;
use std::borrow::Cow;

const K: usize = 5;
const RL: usize = K + 1; // read length (one spare base)

fn mk_filter(min_count: u16) -> KmerFilter {
    KmerFilter { buf_size: 4, buffer: vec![0u64; 4], counts: HashMap::new(), min_count }
}

/// N sightings of one k-mer (each sighting either as read or, with strands merged, as its reverse
/// complement), optionally preceded by one sighting of an arbitrary other k-mer (collisions allowed).
fn never_lost<const N: usize>() {
    let rc: bool = kani::any();
    let min_count: u16 = kani::any();
    kani::assume(min_count >= 1 && min_count as usize <= N);
    let mut f = mk_filter(min_count);
    let mut w = [b'A'; RL];
    let mut i = 0;
    while i < RL { w[i] = any_upper_base(); i += 1; }
    let mut v = [b'A'; RL];
    let mut j = 0;
    while j < K { v[j] = comp(w[K - 1 - j]); j += 1; }
    // an unrelated k-mer seen first (may collide in the Bloom block: the k-mer of interest must still never be lost)
    let with_other: bool = kani::any();
    if with_other {
        let mut u = [b'A'; RL];
        let mut i = 0;
        while i < RL { u[i] = any_upper_base(); i += 1; }
        let it = SplitKmer::<u64>::new(Cow::Borrowed(&u[..]), RL, None, K, rc, 0, QualFilter::NoFilter, true).unwrap();
        let _ = f.filter(&it);
        std::mem::forget(it);
    }
    let mut passed_at = N; // first sighting (0-based) at which the filter answered Equal
    let mut used_rc = false;
    let mut s = 0;
    while s < N {
        let flip: bool = kani::any();
        let use_rc = rc && flip;
        if use_rc { used_rc = true; }
        let read: &[u8] = if use_rc { &v[..] } else { &w[..] };
        let it = SplitKmer::<u64>::new(Cow::Borrowed(read), RL, None, K, rc, 0, QualFilter::NoFilter, true).unwrap();
        let r = f.filter(&it);
        if r == Ordering::Equal && passed_at == N { passed_at = s; }
        std::mem::forget(it);
        s += 1;
    }
    // seen min_count times after sighting index min_count-1: it must have passed at or before that sighting
    assert!(passed_at < min_count as usize, "a k-mer that reaches the count is never lost");
    if !with_other {
        // no other k-mer in the filter: no collision is possible, the count is exact
        assert!(passed_at + 1 == min_count as usize, "without collisions the k-mer passes exactly at its min-count-th sighting");
    }
    kani::cover!(min_count as usize == N && passed_at == N - 1, "passes exactly at the last sighting");
    kani::cover!(used_rc && min_count >= 2, "a reverse-complement sighting is counted");
    kani::cover!(with_other && passed_at + 1 < min_count as usize, "a collision lets it pass early");
    std::mem::forget(f);
}
#[kani::proof]
#[kani::unwind(8)]
fn cnt_never_lost_3() { never_lost::<3>(); }
#[kani::proof]
#[kani::unwind(8)]
fn cnt_never_lost_4() { never_lost::<4>(); }
