//! Wrappers of generic_modes.rs: threshold arithmetic (C06.thr), distance pre-filtering (C14.wrap),
//! delete / weed wrappers (C08.wrap, C13.wrap, C10.B). File output is stubbed (environment stubs).
use super::super::*;
use crate::merge_ska_array::verif_harness::common::*;
use crate::verif_support::*;

/// C06.thr: the frequency threshold used by `ska align` is ceil(samples x min_freq) in IEEE double arithmetic
#[kani::proof]
#[kani::unwind(7)]
fn apply_filters_threshold_c4() {
    const C: usize = 4;
    let mut row = [0u8; C];
    let mut j = 0;
    while j < C { row[j] = any_plain_sym(); j += 1; }
    kani::assume(present::<C>(&row) >= 1);
    let f: f64 = kani::any();
    kani::assume(f >= 0.0 && f <= 1.0);
    let mut a = mk_array::<1, C>(&[42u64], &[row]);
    let removed = apply_filters(&mut a, f, false, &FilterType::NoFilter, false, false);
    let thr = f64::ceil(C as f64 * f) as usize;
    let keep = present::<C>(&row) >= thr;
    assert!((nrows_of(&a) == 1) == keep, "column emitted iff present in at least ceil(min_freq x samples) samples");
    assert!(removed == if keep { 0 } else { 1 }, "removed count");
    kani::cover!(f == 0.5 && present::<C>(&row) == 2 && keep, "exactly at the threshold");
    kani::cover!(f > 0.5 && f < 0.75 && present::<C>(&row) == 2 && !keep, "just below the threshold");
    std::mem::forget(a);
}

/// C14.wrap: `ska distance` ignores k-mers below the frequency threshold entirely (they are neither
/// compared nor counted as matching constant sites); constant sites among the remaining k-mers are
/// counted as matches; the rest is handed to the pairwise computation.
/// One row x C samples; which samples have the k-mer (PRES bit mask), FREQ2 = 2 x min_freq (0, 1 or 2) and the
/// ambiguity switch are concrete per harness; the bases are symbolic.
fn distance_wrapper<const C: usize, const PRES: u8, const FREQ2: usize, const FILT_AMBIG: bool>() {
    let mut row = [b'-'; C];
    let mut npres = 0;
    let mut j = 0;
    while j < C { if (PRES >> j) & 1 == 1 { let b: u8 = kani::any(); kani::assume(matches!(b, b'A' | b'C' | b'G' | b'T')); row[j] = b; npres += 1; } j += 1; }
    let min_freq = FREQ2 as f64 / 2.0;
    let mut a = mk_array_counts::<1, C>(&[42u64], &[row], &[npres]);
    let thr = (C * FREQ2 + 1) / 2; // ceil(C x min_freq)
    let passes_freq = npres >= thr;
    let constant_site = distinct::<C>(&row, |_| true) == 1;
    let exp_constant = if passes_freq && constant_site { 1.0 } else { 0.0 };
    let exp_rows = if passes_freq && !constant_site { 1 } else { 0 };
    if passes_freq && npres == C { kani::cover!(constant_site, "a constant site"); }
    if passes_freq { kani::cover!(!constant_site, "a variable site"); } else { kani::cover!(true, "a k-mer below the frequency threshold"); }
    stub_io(true);
    // the table is built with exact counts and no empty row, and every pass keeps that (filter copies the
    // count of a kept row): recounting without the ambiguity switch is the identity (lemma decided by C06.cnt)
    counts_exact_lemma(!FILT_AMBIG);
    expect_distance(exp_constant, exp_rows);
    // the recorder standing in for MergeSkaArray::distance checks (constant, rows) and ends the path
    distance(&mut a, &None, min_freq, FILT_AMBIG, 1);
    assert!(false, "must-not-reach: the pairwise computation was never invoked");
}
macro_rules! gen_dw { ($($name:ident: $c:expr, $p:expr, $f:expr, $a:expr;)*) => { $(
    #[kani::proof]
    #[kani::unwind(7)]
    fn $name() { distance_wrapper::<$c, $p, $f, $a>(); }
)* }; }
include!("wrap_gen.inc");

/// C08.wrap: `ska delete` = delete_samples followed by exactly one save of the modified array
#[kani::proof]
#[kani::unwind(8)]
fn delete_wrapper_2x3() {
    const C: usize = 3;
    let mut rows = [[0u8; C]; 2];
    let mut i = 0;
    while i < 2 { let mut j = 0; while j < C { rows[i][j] = any_stored_sym(); j += 1; } kani::assume(present::<C>(&rows[i]) >= 1); i += 1; }
    let mut a = mk_array::<2, C>(&[10u64, 20u64], &rows);
    stub_io(true);
    delete(&mut a, &["b"], "out.skf");
    assert!(save_calls() == 1, "saved exactly once, after the deletion");
    assert!(nnames_of(&a) == 2 && name_of(&a, 0).as_bytes() == b"a" && name_of(&a, 1).as_bytes() == b"c" && ncols_of(&a) == 2, "the array that is saved holds the remaining samples");
    let mut out = 0;
    let mut i = 0;
    while i < 2 {
        if rows[i][0] != b'-' || rows[i][2] != b'-' {
            let r = row_of::<2>(&a, out);
            assert!(r[0] == rows[i][0] && r[1] == rows[i][2] && kmer_at(&a, out) == [10u64, 20u64][i], "remaining bases and k-mers");
            out += 1;
        }
        i += 1;
    }
    assert!(nrows_of(&a) == out && nkmers_of(&a) == out, "k-mers only in the deleted sample are gone");
    kani::cover!(out == 1, "a k-mer found only in the deleted sample");
    std::mem::forget(a);
}

/// C13.wrap: `ska weed` without a weed file, --min-freq 0, no site filter and no masks applies no filter
/// at all and saves the table unchanged (the frequency threshold is floor(samples x min_freq))
fn weed_wrapper<const R: usize, const FREQ10: usize>() {
    const C: usize = 3;
    let mut rows = [[0u8; C]; R];
    let mut i = 0;
    while i < R { let mut j = 0; while j < C { rows[i][j] = any_stored_sym(); j += 1; } kani::assume(present::<C>(&rows[i]) >= 1); i += 1; }
    let kmers: [u64; R] = std::array::from_fn(|i| 10 * (i as u64 + 1));
    let mut a = mk_array::<R, C>(&kmers, &rows);
    stub_io(true);
    let min_freq = FREQ10 as f64 / 10.0;
    weed(&mut a, &None, false, min_freq, false, &FilterType::NoFilter, false, false, "out.skf");
    assert!(save_calls() == 1, "saved exactly once");
    let thr = (C * FREQ10) / 10; // floor(samples x min_freq)
    let mut out = 0;
    let mut i = 0;
    while i < R {
        if present::<C>(&rows[i]) >= thr {
            assert!(out < nrows_of(&a) && row_of::<C>(&a, out) == rows[i] && kmer_at(&a, out) == kmers[i] && count_at(&a, out) == present::<C>(&rows[i]), "k-mer at or above the threshold kept with all its bases");
            out += 1;
        }
        i += 1;
    }
    assert!(nrows_of(&a) == out && nkmers_of(&a) == out && counts_len(&a) == out, "nothing else is kept");
    if FREQ10 == 0 { assert!(out == R, "--min-freq 0 applies no frequency filter"); kani::cover!(true, "any: saved unchanged"); }
    else { kani::cover!(out + 1 == R, "any: the default --min-freq 0.9 additionally drops a k-mer missing from a sample"); }
    std::mem::forget(a);
}
#[kani::proof]
#[kani::unwind(8)]
fn weed_wrapper_minfreq0() { weed_wrapper::<2, 0>(); }
#[kani::proof]
#[kani::unwind(5)]
fn weed_wrapper_minfreq09() { weed_wrapper::<1, 9>(); }

