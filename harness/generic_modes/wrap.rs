//! Wrappers of generic_modes.rs: threshold arithmetic (C06.thr), distance pre-filtering (C14.wrap),
//! delete / weed wrappers (C08.wrap, C13.wrap, C10.B). File output is stubbed (environment stubs).
use super::super::*;
use crate::merge_ska_array::verif_harness::common::*;
use crate::verif_support::*;

/// C06.thr: the frequency threshold used by `ska align` is ceil(samples x min_freq) in IEEE double arithmetic
#[kani::proof]
#[kani::unwind(7)]
fn apply_filters_threshold_c4() {
    const C: usize = 4;
    let mut row = [0u8; C];
    let mut j = 0;
    while j < C { row[j] = any_plain_sym(); j += 1; }
    kani::assume(present::<C>(&row) >= 1);
    let f: f64 = kani::any();
    kani::assume(f >= 0.0 && f <= 1.0);
    let mut a = mk_array::<1, C>(&[42u64], &[row]);
    let removed = apply_filters(&mut a, f, false, &FilterType::NoFilter, false, false);
    let thr = f64::ceil(C as f64 * f) as usize;
    let keep = present::<C>(&row) >= thr;
    assert!((nrows_of(&a) == 1) == keep, "column emitted iff present in at least ceil(min_freq x samples) samples");
    assert!(removed == if keep { 0 } else { 1 }, "removed count");
    kani::cover!(f == 0.5 && present::<C>(&row) == 2 && keep, "exactly at the threshold");
    kani::cover!(f > 0.5 && f < 0.75 && present::<C>(&row) == 2 && !keep, "just below the threshold");
    std::mem::forget(a);
}

/// C14.wrap: `ska distance` ignores k-mers below the frequency threshold entirely (they are neither
/// compared nor counted as matching constant sites); constant sites among the remaining k-mers are
/// counted as matches; the rest is handed to the pairwise computation.
/// One row x C samples; which samples have the k-mer (PRES bit mask), FREQ2 = 2 x min_freq (0, 1 or 2) and the
/// ambiguity switch are concrete per harness; the bases are symbolic.
fn distance_wrapper<const C: usize, const PRES: u8, const FREQ2: usize, const FILT_AMBIG: bool>() {
    let mut row = [b'-'; C];
    let mut npres = 0;
    let mut j = 0;
    while j < C { if (PRES >> j) & 1 == 1 { let b: u8 = kani::any(); kani::assume(matches!(b, b'A' | b'C' | b'G' | b'T')); row[j] = b; npres += 1; } j += 1; }
    let min_freq = FREQ2 as f64 / 2.0;
    let mut a = mk_array_counts::<1, C>(&[42u64], &[row], &[npres]);
    let thr = (C * FREQ2 + 1) / 2; // ceil(C x min_freq)
    let passes_freq = npres >= thr;
    let constant_site = distinct::<C>(&row, |_| true) == 1;
    let exp_constant = if passes_freq && constant_site { 1.0 } else { 0.0 };
    let exp_rows = if passes_freq && !constant_site { 1 } else { 0 };
    if passes_freq && npres == C { kani::cover!(constant_site, "a constant site"); }
    if passes_freq { kani::cover!(!constant_site, "a variable site"); } else { kani::cover!(true, "a k-mer below the frequency threshold"); }
    stub_io(true);
    expect_distance(exp_constant, exp_rows);
    // the recorder standing in for MergeSkaArray::distance checks (constant, rows) and ends the path
    distance(&mut a, &None, min_freq, FILT_AMBIG, 1);
    assert!(false, "must-not-reach: the pairwise computation was never invoked");
}
macro_rules! gen_dw { ($($name:ident: $c:expr, $p:expr, $f:expr, $a:expr;)*) => { $(
    #[kani::proof]
    #[kani::unwind(7)]
    fn $name() { distance_wrapper::<$c, $p, $f, $a>(); }
)* }; }
include!("wrap_gen.inc");
