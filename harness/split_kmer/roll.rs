//! C16.roll, C01.pack, C01.pal, C02.strand, C02.case: content of the split k-mer for every valid k.
//! k is symbolic (it only feeds shifts and masks); one harness per integer width.
use super::super::*;
use super::common::*;
use crate::verif_support::*;
use std::borrow::Cow;

macro_rules! roll_eq_rebuild {
    ($name:ident, $ty:ty, $kmin:expr, $kmax:expr, $unw:expr) => {
        /// rolling one base forward from the state of window w gives exactly the state built from
        /// scratch on the shifted window: all private fields compared. By induction (the state is
        /// a function of the window) this covers any number of rolls.
        #[kani::proof]
        #[kani::unwind($unw)]
        fn $name() {
            const KMAX: usize = $kmax;
            const L: usize = KMAX + 2;
            let k: usize = kani::any();
            kani::assume(k >= $kmin && k <= KMAX && k % 2 == 1);
            let mut seq = [b'A'; L];
            let mut i = 0;
            while i < L { seq[i] = any_base(); i += 1; }
            let rc: bool = kani::any();
            let len = k + 2;
            // a: built on [0..k+2), rolled once; b: built on [1..k+2)
            let mut a = SplitKmer::<$ty>::new(Cow::Borrowed(&seq[..len]), len, None, k, rc, 0, QualFilter::NoFilter, false).unwrap();
            let rolled = a.roll_fwd();
            assert!(rolled, "roll succeeds inside the record");
            let b = SplitKmer::<$ty>::new(Cow::Borrowed(&seq[1..len]), len - 1, None, k, rc, 0, QualFilter::NoFilter, false).unwrap();
            assert!(a.upper == b.upper && a.lower == b.lower && a.middle_base == b.middle_base, "forward state");
            if rc { assert!(a.rc_upper == b.rc_upper && a.rc_lower == b.rc_lower && a.rc_middle_base == b.rc_middle_base, "reverse-complement state"); }
            assert!(a.index == b.index + 1, "index");
            assert!(a.get_middle_pos() == b.get_middle_pos() + 1, "middle position");
            assert!(a.get_curr_kmer() == b.get_curr_kmer(), "k-mer");
            // and the rebuilt state is the specification packing (C01.pack)
            let (f, fm, r, rm) = spec_both(&seq, 1, k, KMAX);
            assert!((b.upper | b.lower) as u128 == f && b.middle_base == fm, "forward packing = specification");
            if rc { assert!((b.rc_upper | b.rc_lower) as u128 == r && b.rc_middle_base == rm, "reverse-complement packing = specification"); }
            let (gk, gb, gr) = b.get_curr_kmer();
            let exp = if rc && f > r { (r, rm, true) } else { (f, fm, false) };
            assert!(gk as u128 == exp.0 && gb == exp.1 && gr == exp.2, "canonical choice");
            kani::cover!(k == KMAX && rc && gr, "largest k, reverse strand chosen");
            kani::cover!(k == $kmin && !rc, "smallest k, single strand");
            std::mem::forget(a);
            std::mem::forget(b);
        }
    };
}
roll_eq_rebuild!(roll_u64_all_k, u64, 5, 31, 35);
roll_eq_rebuild!(roll_u128_k_le_31, u128, 5, 31, 35);
roll_eq_rebuild!(roll_u128_k_33_63, u128, 33, 63, 67);

macro_rules! strand_sym {
    ($name:ident, $ty:ty, $kmin:expr, $kmax:expr, $unw:expr) => {
        /// C02.strand + C01.pal: with strands merged a window and its reverse complement give the same
        /// k-mer and middle base; the palindrome flag holds exactly when the arms equal their own
        /// reverse complement, and then the forward orientation is returned.
        #[kani::proof]
        #[kani::unwind($unw)]
        fn $name() {
            const KMAX: usize = $kmax;
            const L: usize = KMAX + 1;
            let k: usize = kani::any();
            kani::assume(k >= $kmin && k <= KMAX && k % 2 == 1);
            let len = k + 1; // one spare base keeps the harness independent of the record-end rule
            let mut w = [b'A'; L];
            let mut i = 0;
            while i < L { w[i] = any_base(); i += 1; }
            // v = reverse complement of w[0..k], in upper case, followed by a spare base
            let mut v = [b'A'; L];
            let mut j = 0;
            while j < L { if j < k { v[j] = comp(upper(w[k - 1 - j])); } j += 1; }
            let mut a = SplitKmer::<$ty>::new(Cow::Borrowed(&w[..len]), len, None, k, true, 0, QualFilter::NoFilter, false).unwrap();
            let mut b = SplitKmer::<$ty>::new(Cow::Borrowed(&v[..len]), len, None, k, true, 0, QualFilter::NoFilter, false).unwrap();
            let (ak, ab, ar) = a.get_curr_kmer();
            let (bk, bb, br) = b.get_curr_kmer();
            let (f, _fm, r, _rm) = spec_both(&w, 0, k, KMAX);
            let pal = f == r;
            assert!(ak == bk, "a window and its reverse complement are one entry");
            if pal { assert!(ab == (bb ^ 2), "self-reverse-complement arms: the two strands show complementary middle bases"); }
            else { assert!(ab == bb, "same middle base from either strand"); }
            assert!(a.self_palindrome() == pal && b.self_palindrome() == pal, "palindrome flag = arms equal their reverse complement");
            if pal { assert!(!ar && !br, "palindrome returned in forward orientation"); } else { assert!(ar != br, "exactly one of the two is reported as reverse strand"); }
            // single-strand iterators never flag palindromes
            let mut c = SplitKmer::<$ty>::new(Cow::Borrowed(&w[..len]), len, None, k, false, 0, QualFilter::NoFilter, false).unwrap();
            assert!(!c.self_palindrome(), "no palindromes in single-strand mode");
            kani::cover!(pal && k == KMAX, "palindromic arms at the largest k");
            kani::cover!(!pal && ar, "reverse strand chosen for the first");
            std::mem::forget(a); std::mem::forget(b); std::mem::forget(c);
        }
    };
}
strand_sym!(strand_u64_all_k, u64, 5, 31, 34);
strand_sym!(strand_u128_k_le_31, u128, 5, 31, 34);
strand_sym!(strand_u128_k_33_63, u128, 33, 63, 66);

/// C02.case: the iterator state does not depend on letter case (any case mask)
#[kani::proof]
#[kani::unwind(34)]
fn case_mask_u64_all_k() {
    const L: usize = 32;
    let k: usize = kani::any();
    kani::assume(k >= 5 && k <= 31 && k % 2 == 1);
    let len = k + 1;
    let mut w = [b'A'; L];
    let mut v = [b'A'; L];
    let mut i = 0;
    while i < L { w[i] = any_base(); let flip: bool = kani::any(); v[i] = if flip { w[i] ^ 0x20 } else { w[i] }; i += 1; }
    let rc: bool = kani::any();
    let a = SplitKmer::<u64>::new(Cow::Borrowed(&w[..len]), len, None, k, rc, 0, QualFilter::NoFilter, false).unwrap();
    let b = SplitKmer::<u64>::new(Cow::Borrowed(&v[..len]), len, None, k, rc, 0, QualFilter::NoFilter, false).unwrap();
    assert!(a.upper == b.upper && a.lower == b.lower && a.middle_base == b.middle_base && a.rc_upper == b.rc_upper && a.rc_lower == b.rc_lower && a.rc_middle_base == b.rc_middle_base && a.index == b.index, "state independent of case");
    kani::cover!(w[0] != v[0] && k == 31, "case actually flipped");
    std::mem::forget(a); std::mem::forget(b);
}
