//! C12.q / C12.win: quality rules of the window enumerator.
use super::super::*;
use super::common::*;
use crate::verif_support::*;
use std::borrow::Cow;

/// C12.q: a base quality passes exactly when its phred score is at least --min-qual
#[kani::proof]
fn qual_threshold() {
    let q: u8 = kani::any();
    let min_qual: u8 = kani::any();
    kani::assume(q >= 33 && q <= 126);
    kani::assume(min_qual <= 93);
    let quals = [q];
    let got = SplitKmer::<u64>::valid_qual(0, Some(&quals), min_qual);
    assert!(got == (q - 33 >= min_qual), "accepted iff phred >= min_qual");
    assert!(SplitKmer::<u64>::valid_qual(0, None, min_qual), "no quality string: always valid");
    kani::cover!(q - 33 == min_qual && min_qual == 20, "quality exactly at the threshold");
}

fn any_rule() -> QualFilter {
    let r: u8 = kani::any();
    kani::assume(r < 3);
    match r { 0 => QualFilter::NoFilter, 1 => QualFilter::Middle, _ => QualFilter::Strict }
}

macro_rules! qual_windows {
    (@cover strict, $n:ident, $d:ident) => { kani::cover!($n >= 1 && $d, "a window dropped by quality while another is kept"); };
    (@cover lax, $n:ident, $d:ident) => { let _ = $d; };
    ($name:ident, $k:expr, $l:expr, $unw:expr, $rule:expr, $strict:tt) => {
        /// windows of a read under a quality rule: strict = windows with no N and every quality >= min;
        /// middle/none = all N-free windows, `middle_base_qual()` iff the middle quality >= min (always for none)
        #[kani::proof]
        #[kani::unwind($unw)]
        fn $name() {
            const L: usize = $l;
            let k: usize = $k;
            let h = (k - 1) / 2;
            let mut seq = [0u8; L];
            let mut qual = [0u8; L];
            let min_qual: u8 = kani::any();
            kani::assume(min_qual <= 60);
            let mut i = 0;
            while i < L {
                seq[i] = any_nt();
                let q: u8 = kani::any();
                kani::assume(q >= 33 && q <= 126);
                qual[i] = q;
                i += 1;
            }
            let len: usize = kani::any();
            kani::assume(len <= L);
            let rc: bool = kani::any();
            let rule: QualFilter = $rule;
            let strict = rule == QualFilter::Strict;
            let mut it = SplitKmer::<u64>::new(Cow::Borrowed(&seq[..len]), len, Some(&qual[..len]), k, rc, min_qual, rule, true);
            let mut cur = match &it { Some(x) => Some((x.get_curr_kmer(), x.get_middle_pos(), x.middle_base_qual())), None => None };
            let mut n_windows = 0;
            let mut dropped_by_quality = false;
            let mut s = 0;
            while s < L {
                if s + k <= len && !window_has_n(&seq, s, k, k) {
                    let mut all_q = true;
                    let mut j = 0;
                    while j < k { if qual[s + j] - 33 < min_qual { all_q = false; } j += 1; }
                    if strict && !all_q { dropped_by_quality = true; }
                    if !strict || all_q {
                        let exp = spec_window(&seq, s, k, rc, k);
                        match cur {
                            Some(((gk, gb, gr), pos, mq)) => {
                                assert!(gk as u128 == exp.0 && gb == exp.1 && gr == exp.2, "window content");
                                assert!(pos == s + h, "middle position");
                                let exp_mq = match rule { QualFilter::NoFilter => true, _ => qual[s + h] - 33 >= min_qual };
                                assert!(mq == exp_mq, "middle base quality verdict");
                            }
                            None => { assert!(false, "missing window"); }
                        }
                        n_windows += 1;
                        let x = it.as_mut().unwrap();
                        cur = match x.get_next_kmer() { Some(g) => Some((g, x.get_middle_pos(), x.middle_base_qual())), None => None };
                    }
                }
                s += 1;
            }
            assert!(cur.is_none(), "extra window");
            qual_windows!(@cover $strict, n_windows, dropped_by_quality);
            kani::cover!(n_windows >= 2, "two windows kept");
        }
    };
}
qual_windows!(qual_win_strict_k5_l8, 5, 8, 10, QualFilter::Strict, strict);
qual_windows!(qual_win_middle_k5_l8, 5, 8, 10, QualFilter::Middle, lax);
qual_windows!(qual_win_none_k5_l8, 5, 8, 10, QualFilter::NoFilter, lax);
