//! C16 (read hashes obtained by sliding equal those computed from scratch at each window) and C12.hash:
//! the rolling ntHash carried by the window enumerator, including the rebuild after an N.
use super::super::*;
use super::common::*;
use crate::verif_support::*;
use std::borrow::Cow;

/// read = k valid bases, one N, k+1 valid bases (positions concrete, bases symbolic): the enumerator
/// yields the window before the N, is rebuilt after it, and rolls once more
fn hash_across_n<const K: usize, const L: usize>() {
    let mut seq = [b'A'; L];
    let mut i = 0;
    while i < L { seq[i] = any_base(); i += 1; }
    seq[K] = if kani::any() { b'N' } else { b'n' };
    let rc: bool = kani::any();
    let mut it = SplitKmer::<u64>::new(Cow::Borrowed(&seq[..]), L, None, K, rc, 0, QualFilter::NoFilter, true).unwrap();
    // expected windows: start 0, then K+1, then K+2
    let starts = [0usize, K + 1, K + 2];
    let mut w = 0;
    loop {
        let s = starts[w];
        let fresh = NtHashIterator::new(&seq[s..s + K], K, rc);
        assert!(it.get_middle_pos() == s + (K - 1) / 2, "window position");
        assert!(it.get_hash() == fresh.curr_hash(), "sliding hash = hash computed from scratch at this window");
        let (gk, gb, gr) = it.get_curr_kmer();
        let exp = spec_window(&seq, s, K, rc, K);
        assert!(gk as u128 == exp.0 && gb == exp.1 && gr == exp.2, "window content");
        w += 1;
        if w == 3 { break; }
        let nxt = it.get_next_kmer();
        assert!(nxt.is_some(), "next window exists");
    }
    assert!(it.get_next_kmer().is_none(), "no further window");
    kani::cover!(rc, "strands merged");
    std::mem::forget(it);
}
#[kani::proof]
#[kani::unwind(14)]
fn hash_across_n_k5() { hash_across_n::<5, 12>(); }
#[kani::proof]
#[kani::unwind(18)]
fn hash_across_n_k7() { hash_across_n::<7, 16>(); }
