//! Specification-side helpers for the split k-mer iterator (independent of the rolling code).
#![allow(dead_code)]
use crate::verif_support::*;

/// canonical split k-mer of the N-free window starting at `s`: (k-mer, middle base code, strand flag).
/// Packed from scratch into a u128 (both integer widths are compared against it).
pub fn spec_window(seq: &[u8], s: usize, k: usize, rc: bool, maxk: usize) -> (u128, u8, bool) {
    let h = (k - 1) / 2;
    let mut f: u128 = 0;
    let mut r: u128 = 0;
    let mut i = 0;
    while i < maxk {
        if i < k && i != h {
            f = (f << 2) | (enc(seq[s + i]) as u128);
            r = (r << 2) | ((enc(seq[s + k - 1 - i]) ^ 2) as u128);
        }
        i += 1;
    }
    let fm = enc(seq[s + h]) as u8;
    if rc && f > r { (r, fm ^ 2, true) } else { (f, fm, false) }
}
/// forward and reverse-complement packings separately
pub fn spec_both(seq: &[u8], s: usize, k: usize, maxk: usize) -> (u128, u8, u128, u8) {
    let h = (k - 1) / 2;
    let mut f: u128 = 0;
    let mut r: u128 = 0;
    let mut i = 0;
    while i < maxk {
        if i < k && i != h {
            f = (f << 2) | (enc(seq[s + i]) as u128);
            r = (r << 2) | ((enc(seq[s + k - 1 - i]) ^ 2) as u128);
        }
        i += 1;
    }
    let fm = enc(seq[s + h]) as u8;
    (f, fm, r, fm ^ 2)
}
pub fn window_has_n(seq: &[u8], s: usize, k: usize, maxk: usize) -> bool {
    let mut bad = false;
    let mut i = 0;
    while i < maxk { if i < k && is_n(seq[s + i]) { bad = true; } i += 1; }
    bad
}
