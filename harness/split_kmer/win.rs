//! C01.win / C16.pos: the window enumerator of `SplitKmer` against its specification:
//! for every start s with s+k <= len and no N in the window, in increasing s, exactly one item
//! (canonical packed split k-mer, middle base, strand flag, middle position) — no missing and
//! no extra window.
use super::super::*;
use super::common::*;
use crate::verif_support::*;
use std::borrow::Cow;

macro_rules! windows_match {
    (@restart yes, $n:ident, $r:ident) => { kani::cover!($n >= 2 && $r, "a window was rebuilt after rolling into an N"); };
    (@restart no, $n:ident, $r:ident) => { let _ = $r; };
    ($name:ident, $ty:ty, $k:expr, $l:expr, $unw:expr, $restart:tt) => {
        #[kani::proof]
        #[kani::unwind($unw)]
        fn $name() {
            const L: usize = $l;
            let k: usize = $k;
            let mut seq = [0u8; L];
            let mut i = 0;
            while i < L { seq[i] = any_nt(); i += 1; }
            let len: usize = kani::any();
            kani::assume(len <= L);
            let rc: bool = kani::any();
            let mut it = SplitKmer::<$ty>::new(Cow::Borrowed(&seq[..len]), len, None, k, rc, 0, QualFilter::NoFilter, false);
            let mut cur = match &it { Some(x) => Some((x.get_curr_kmer(), x.get_middle_pos())), None => None };
            let mut n_windows = 0;
            let mut saw_restart = false;
            let mut prev_s = L;
            let mut s = 0;
            while s < L {
                if s + k <= len && !window_has_n(&seq, s, k, k) {
                    let exp = spec_window(&seq, s, k, rc, k);
                    match cur {
                        Some(((gk, gb, gr), pos)) => {
                            assert!(gk as u128 == exp.0 && gb == exp.1 && gr == exp.2, "window content");
                            assert!(pos == s + (k - 1) / 2, "middle position");
                        }
                        None => { assert!(false, "missing window"); }
                    }
                    if prev_s != L && s > prev_s + 1 { saw_restart = true; }
                    prev_s = s;
                    n_windows += 1;
                    let x = it.as_mut().unwrap();
                    cur = match x.get_next_kmer() { Some(g) => Some((g, x.get_middle_pos())), None => None };
                }
                s += 1;
            }
            assert!(cur.is_none(), "extra window");
            windows_match!(@restart $restart, n_windows, saw_restart);
            kani::cover!(n_windows >= 1 && is_n(seq[0]), "first window starts after a leading N");
            kani::cover!(n_windows >= 2 && rc, "two consecutive windows, strands merged");
            kani::cover!(n_windows == 1 && len == k, "record of exactly k bases yields its window");
            kani::cover!(n_windows == 0 && len > k, "record longer than k without any valid window");
        }
    };
}

windows_match!(win_u64_k5_l8, u64, 5, 8, 10, no);
windows_match!(win_u64_k7_l10, u64, 7, 10, 12, no);
windows_match!(win_u64_k9_l12, u64, 9, 12, 14, no);
windows_match!(win_u128_k5_l8, u128, 5, 8, 10, no);
windows_match!(win_u128_k7_l10, u128, 7, 10, 12, no);
windows_match!(win_u64_k5_l11, u64, 5, 11, 13, yes);
