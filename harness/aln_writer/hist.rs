//! C04.hist: `new`, up to two `write_split_kmer` calls, `finalise` against the specification directly
//! (independent of the invariant: guards against an invariant that is accidentally too weak or vacuous).
use super::super::*;
use super::common::*;

fn hist<const T: usize, const NC: usize, const HALF: usize, const N: usize, const REP: bool>(lens: [usize; NC]) {
    let l = Layout::<T, NC, HALF>::new(lens);
    let mut flat = [0u8; T];
    for i in 0..T { let b: u8 = kani::any(); kani::assume(b != b'-'); flat[i] = b; }
    let mut reference: Vec<Vec<u8>> = Vec::new();
    for c in 0..NC { reference.push(flat[l.starts[c]..l.starts[c] + lens[c]].to_vec()); }
    let mut repeats: Vec<usize> = Vec::with_capacity(1);
    let r0: usize = if REP { kani::any() } else { T };
    if REP { kani::assume(r0 < T); repeats.push(r0); }
    let mask: bool = kani::any();
    let mut w = AlnWriter::new(&reference, 2 * HALF + 1, &repeats, mask);
    let n: usize = N;
    let (c0, p0, b0): (usize, usize, u8) = (kani::any(), kani::any(), kani::any());
    let (c1, p1, b1): (usize, usize, u8) = (kani::any(), kani::any(), kani::any());
    kani::assume(c0 < NC && p0 < lens[c0] && l.valid_centre(c0, p0) && b0 != b'-');
    kani::assume(c1 < NC && p1 < lens[c1] && l.valid_centre(c1, p1) && b1 != b'-');
    kani::assume(c1 > c0 || (c1 == c0 && p1 > p0)); // reference order
    let mut m = [false; T];
    let mut mid = [0u8; T];
    if n >= 1 { w.write_split_kmer(p0, c0, b0); m[l.starts[c0] + p0] = true; mid[l.starts[c0] + p0] = if mask && spec_amb(b0) { b'N' } else { b0 }; }
    if n >= 2 { w.write_split_kmer(p1, c1, b1); m[l.starts[c1] + p1] = true; mid[l.starts[c1] + p1] = if mask && spec_amb(b1) { b'N' } else { b1 }; }
    w.finalise();
    assert!(w.total_size() == T, "output as long as the concatenated reference");
    {
        let out = &w.seq_out;
        for c in 0..NC { for p in 0..lens[c] {
            let abs = l.starts[c] + p;
            let mut exp = if m[abs] { mid[abs] } else if l.covered(&m, c, p) { flat[abs] } else { b'-' };
            if abs == r0 && exp != b'-' { exp = b'N'; }
            assert!(out[abs] == exp, "output = union of matched k-mer windows");
        } }
    }
    kani::cover!(n == 2 && c0 == c1 && p1 <= p0 + HALF, "two overlapping windows on one contig");
    kani::cover!(n == 2 && c0 == c1 && p1 > p0 + 2 * HALF + 1, "two windows with a gap between them");
    kani::cover!(n == 2 && c1 > c0, "windows on two contigs");
    kani::cover!(n == 1 && REP && r0 + 1 == l.starts[c0] + p0, "repeat coordinate on a flank");
    std::mem::forget(w);
}
#[kani::proof]
#[kani::unwind(12)]
fn aln_hist_h2_10_two() { hist::<10, 1, 2, 2, false>([10]); }
#[kani::proof]
#[kani::unwind(12)]
fn aln_hist_h2_10_one_rep() { hist::<10, 1, 2, 1, true>([10]); }
#[kani::proof]
#[kani::unwind(13)]
fn aln_hist_h2_6_5_two() { hist::<11, 2, 2, 2, false>([6, 5]); }
