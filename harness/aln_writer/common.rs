//! Ghost layout, representation invariant and symbolic state of `AlnWriter` (DESIGN appendix B, validated).
#![allow(dead_code)]
use super::super::*;

pub fn spec_amb(b: u8) -> bool { !matches!(b | 0x20, b'a' | b'c' | b'g' | b't' | b'u' | b'-') }

/// Ghost view of a layout: NC contigs with concrete lengths, total T
pub struct Layout<const T: usize, const NC: usize, const HALF: usize> { pub lens: [usize; NC], pub starts: [usize; NC] }
impl<const T: usize, const NC: usize, const HALF: usize> Layout<T, NC, HALF> {
    pub fn new(lens: [usize; NC]) -> Self {
        let mut starts = [0usize; NC]; let mut s = 0;
        for c in 0..NC { starts[c] = s; s += lens[c]; }
        assert!(s == T);
        Self { lens, starts }
    }
    pub fn valid_centre(&self, c: usize, p: usize) -> bool { p >= HALF && p + HALF < self.lens[c] }
    /// is position p of contig c within HALF of a matched centre (other than itself)?
    pub fn covered(&self, m: &[bool; T], c: usize, p: usize) -> bool {
        let abs = self.starts[c] + p;
        let mut near = false;
        for d in 1..=HALF {
            if p >= d && m[abs - d] { near = true; }
            if p + d < self.lens[c] && m[abs + d] { near = true; }
        }
        near
    }
}

/// Representation invariant (middles excluded: matched positions are don't-care in seq_out)
pub fn inv<const T: usize, const NC: usize, const HALF: usize>(w: &AlnWriter, l: &Layout<T, NC, HALF>, m: &[bool; T], flat: &[u8; T]) -> bool {
    if w.seq_out.len() != T || w.half_split_len != HALF || w.finalised { return false; }
    if w.curr_chrom >= NC { return false; }
    let cur = w.curr_chrom;
    if w.chrom_offset != l.starts[cur] { return false; }
    let mut ok = true;
    // ghost sanity: matches only at valid centres, none on later contigs
    for c in 0..NC { for p in 0..l.lens[c] {
        let abs = l.starts[c] + p;
        if m[abs] && (!l.valid_centre(c, p) || c > cur) { ok = false; }
    } }
    // finished contigs: unmatched positions are final
    for c in 0..NC { if c < cur { for p in 0..l.lens[c] {
        let abs = l.starts[c] + p;
        if !m[abs] {
            let exp = if l.covered(m, c, p) { flat[abs] } else { b'-' };
            if w.seq_out[abs] != exp { ok = false; }
        }
    } } }
    // later contigs untouched
    for c in 0..NC { if c > cur { for p in 0..l.lens[c] { if w.seq_out[l.starts[c] + p] != b'-' { ok = false; } } } }
    // current contig
    let len = l.lens[cur]; let off = l.starts[cur];
    let mut any = false; let mut maxm = 0;
    for p in 0..len { if m[off + p] { any = true; maxm = p; } }
    if !any {
        if w.next_pos != HALF { ok = false; }
        if !(w.last_written == 0 || w.last_mapped + HALF <= w.last_written) { ok = false; }
        for p in 0..len { if w.seq_out[off + p] != b'-' { ok = false; } }
    } else {
        let lw = w.last_written;
        if !(lw < len && m[off + lw]) { return false; }
        if w.last_mapped != maxm { ok = false; }
        if w.next_pos != lw + HALF + 1 { ok = false; }
        if !(lw <= maxm && maxm < w.next_pos) { ok = false; }
        for p in 0..len {
            if !m[off + p] {
                let exp = if p < lw { if l.covered(m, cur, p) { flat[off + p] } else { b'-' } } else { b'-' };
                if w.seq_out[off + p] != exp { ok = false; }
            }
        }
    }
    ok
}

pub fn sym_state<'a, const T: usize, const HALF: usize>(reference: &'a Vec<Vec<u8>>, repeats: &'a Vec<usize>, mask: bool) -> AlnWriter<'a> {
    let mut out = vec![b'-'; T];
    for i in 0..T { out[i] = kani::any(); }
    let mut mid: Vec<(u8, usize)> = Vec::with_capacity(4);
    let n: usize = kani::any(); kani::assume(n <= 2);
    for i in 0..2 { if i < n { mid.push((kani::any(), kani::any())); } }
    AlnWriter {
        next_pos: kani::any(), curr_chrom: kani::any(), last_mapped: kani::any(), last_written: kani::any(),
        chrom_offset: kani::any(), ref_seq: reference, seq_out: out, half_split_len: HALF, finalised: false,
        repeat_regions: repeats, mask_ambig: mask, _middle_out: mid,
    }
}

