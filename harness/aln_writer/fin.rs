//! C04.fin: `finalise`/`get_seq` from an arbitrary state satisfying the invariant produce exactly the
//! specification of the property: centre -> (masked) middle base; else the reference base if within h of
//! a matched centre on the same contig; else '-'; then N at every non-gap repeat coordinate.
use super::super::*;
use super::common::*;

fn fin<const T: usize, const NC: usize, const HALF: usize>(lens: [usize; NC]) {
    let l = Layout::<T, NC, HALF>::new(lens);
    let mut flat = [0u8; T];
    for i in 0..T { let b: u8 = kani::any(); kani::assume(b != b'-'); flat[i] = b; }
    let mut reference: Vec<Vec<u8>> = Vec::new();
    for c in 0..NC { reference.push(flat[l.starts[c]..l.starts[c] + lens[c]].to_vec()); }
    // repeats: 2 symbolic coordinates
    let mut repeats: Vec<usize> = Vec::with_capacity(2);
    let r0: usize = kani::any(); let r1: usize = kani::any(); kani::assume(r0 < T && r1 < T);
    repeats.push(r0); repeats.push(r1);
    let mut w = sym_state::<T, HALF>(&reference, &repeats, false);
    kani::assume(w.last_written < T && w.last_mapped < T && w.next_pos <= T + HALF + 1 && w.chrom_offset <= T);
    let mut m = [false; T];
    for i in 0..T { m[i] = kani::any(); }
    kani::assume(inv::<T, NC, HALF>(&w, &l, &m, &flat));
    // middles consistent with M: at most 2 centres, listed in _middle_out
    let mut cnt = 0; for i in 0..T { if m[i] { cnt += 1; } }
    kani::assume(cnt == w._middle_out.len());
    for j in 0..2 { if j < w._middle_out.len() { let (mb, mp) = w._middle_out[j]; kani::assume(mp < T && m[mp] && mb != b'-'); } }
    if w._middle_out.len() == 2 { kani::assume(w._middle_out[0].1 != w._middle_out[1].1); }
    let mids: [(u8, usize); 2] = [if w._middle_out.len() > 0 { w._middle_out[0] } else { (0, T) }, if w._middle_out.len() > 1 { w._middle_out[1] } else { (0, T) }];
    let pre_cur = w.curr_chrom;
    w.finalise();
    assert!(w.finalised, "finalised flag set");
    let mut masked_flank = false;
    let mut tail_filled = false;
    {
        let out = &w.seq_out;
        for c in 0..NC { for p in 0..lens[c] {
            let abs = l.starts[c] + p;
            let mut exp = if m[abs] { if mids[0].1 == abs { mids[0].0 } else { mids[1].0 } }
                          else if l.covered(&m, c, p) { flat[abs] } else { b'-' };
            if (abs == r0 || abs == r1) && exp != b'-' { if !m[abs] { masked_flank = true; } exp = b'N'; }
            if !m[abs] && exp != b'-' && exp != b'N' && c == pre_cur { tail_filled = true; }
            assert!(out[abs] == exp, "finalised output = specification");
        } }
    }
    kani::cover!(masked_flank, "a reference flank position is repeat-masked");
    kani::cover!(tail_filled && cnt == 2, "flank bases written on the current contig with two centres");
    kani::cover!(pre_cur + 1 < NC || NC == 1, "contigs after the current one are finalised as gaps");
    std::mem::forget(w);
}

#[kani::proof]
#[kani::unwind(14)]
fn aln_fin_h2_5_2_5() { fin::<12, 3, 2>([5, 2, 5]); }
#[kani::proof]
#[kani::unwind(14)]
fn aln_fin_h2_12() { fin::<12, 1, 2>([12]); }
#[kani::proof]
#[kani::unwind(14)]
fn aln_fin_h2_6_6() { fin::<12, 2, 2>([6, 6]); }
#[kani::proof]
#[kani::unwind(18)]
fn aln_fin_h3_16() { fin::<16, 1, 3>([16]); }
