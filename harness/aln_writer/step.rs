//! C04.step: one `write_split_kmer` from an arbitrary state satisfying the invariant keeps the invariant
//! (histories of any length are covered by induction). C04.init: `new` establishes it.
use super::super::*;
use super::common::*;

fn step<const T: usize, const NC: usize, const HALF: usize>(lens: [usize; NC]) {
    let l = Layout::<T, NC, HALF>::new(lens);
    let mut flat = [0u8; T];
    for i in 0..T { let b: u8 = kani::any(); kani::assume(b != b'-'); flat[i] = b; }
    let mut reference: Vec<Vec<u8>> = Vec::new();
    for c in 0..NC { reference.push(flat[l.starts[c]..l.starts[c] + lens[c]].to_vec()); }
    let repeats: Vec<usize> = Vec::new();
    let mask: bool = kani::any();
    let mut w = sym_state::<T, HALF>(&reference, &repeats, mask);
    kani::assume(w.last_written < T && w.last_mapped < T && w.next_pos <= T + HALF + 1 && w.chrom_offset <= T);
    let mut m = [false; T];
    for i in 0..T { m[i] = kani::any(); }
    kani::assume(inv::<T, NC, HALF>(&w, &l, &m, &flat));
    let mid_before = w._middle_out.len();
    // next centre: valid, after everything in M
    let c: usize = kani::any(); let p: usize = kani::any();
    kani::assume(c < NC && c >= w.curr_chrom && p < lens[c] && l.valid_centre(c, p));
    if c == w.curr_chrom { for q in 0..T { if q < lens[c] && m[l.starts[c] + q] { kani::assume(p > q); } } }
    let b: u8 = kani::any(); kani::assume(b != b'-');
    let (pre_cur, pre_np, pre_lw, pre_lm) = (w.curr_chrom, w.next_pos, w.last_written, w.last_mapped);
    let mut pre_any = false; for q in 0..T { if q < lens[pre_cur] && m[l.starts[pre_cur] + q] { pre_any = true; } }
    kani::cover!(c == pre_cur && pre_any && p < pre_np, "any: skip branch from a non-empty contig");
    kani::cover!(c == pre_cur && pre_any && p == pre_np, "any: exactly adjacent");
    kani::cover!(c == pre_cur && pre_any && p > pre_np + HALF, "any: gap larger than overhang");
    kani::cover!(c == pre_cur && pre_any && pre_lm > pre_lw && p > pre_np, "any: catch-up after skipped matches");
    kani::cover!(c > pre_cur && pre_any, "any: contig switch after matches");
    kani::cover!(c > pre_cur + 1, "any: contig switch over a contig without centres");
    kani::cover!(c > pre_cur && !pre_any && pre_lw > 0, "any: switch with stale state");
    kani::cover!(mask && spec_amb(b), "ambiguous base under mask");
    w.write_split_kmer(p, c, b);
    m[l.starts[c] + p] = true;
    assert!(inv::<T, NC, HALF>(&w, &l, &m, &flat), "invariant preserved by write_split_kmer");
    assert!(w._middle_out.len() == mid_before + 1, "one middle base buffered");
    let last = w._middle_out[mid_before];
    assert!(last.1 == l.starts[c] + p, "middle base buffered at its absolute position");
    assert!(last.0 == if mask && spec_amb(b) { b'N' } else { b }, "middle base masked iff ambiguous under mask");
    std::mem::forget(w);
}

#[kani::proof]
#[kani::unwind(14)]
fn aln_step_h2_12() { step::<12, 1, 2>([12]); }
#[kani::proof]
#[kani::unwind(14)]
fn aln_step_h2_6_6() { step::<12, 2, 2>([6, 6]); }
#[kani::proof]
#[kani::unwind(14)]
fn aln_step_h2_5_2_5() { step::<12, 3, 2>([5, 2, 5]); }
#[kani::proof]
#[kani::unwind(14)]
fn aln_step_h2_1_6_5() { step::<12, 3, 2>([1, 6, 5]); }
#[kani::proof]
#[kani::unwind(16)]
fn aln_step_h2_7_1_6() { step::<14, 3, 2>([7, 1, 6]); }
#[kani::proof]
#[kani::unwind(14)]
fn aln_step_h2_4_4_4() { step::<12, 3, 2>([4, 4, 4]); }
#[kani::proof]
#[kani::unwind(18)]
fn aln_step_h3_16() { step::<16, 1, 3>([16]); }
#[kani::proof]
#[kani::unwind(19)]
fn aln_step_h3_7_3_7() { step::<17, 3, 3>([7, 3, 7]); }

fn init<const T: usize, const NC: usize, const HALF: usize>(lens: [usize; NC]) {
    let l = Layout::<T, NC, HALF>::new(lens);
    let mut flat = [0u8; T];
    for i in 0..T { let b: u8 = kani::any(); kani::assume(b != b'-'); flat[i] = b; }
    let mut reference: Vec<Vec<u8>> = Vec::new();
    for c in 0..NC { reference.push(flat[l.starts[c]..l.starts[c] + lens[c]].to_vec()); }
    let repeats: Vec<usize> = Vec::new();
    let w = AlnWriter::new(&reference, 2 * HALF + 1, &repeats, kani::any());
    let m = [false; T];
    assert!(inv::<T, NC, HALF>(&w, &l, &m, &flat), "new establishes the invariant with no centre written");
    assert!(w.total_size() == T, "output as long as the concatenated reference");
    assert!(w._middle_out.len() == 0, "no middle base buffered");
    kani::cover!(w.seq_out[T - 1] == b'-', "output initialised to gaps");
    std::mem::forget(w);
}
#[kani::proof]
#[kani::unwind(16)]
fn aln_init_h2_5_2_5() { init::<12, 3, 2>([5, 2, 5]); }
#[kani::proof]
#[kani::unwind(16)]
fn aln_init_h3_14() { init::<14, 1, 3>([14]); }
