//! Differential self-test of the library models in /verif/models against the real crates:
//! the same scripted operation sequences (taken from how ska uses the APIs, with the repo's own unit-test
//! table as data) are driven through both and the observable results are compared.
#![allow(dead_code, unused_imports, static_mut_refs)]
pub mod verif_models {
    pub mod bounds { pub const MCAP: usize = 8; pub const SCAP: usize = 8; pub const RCAP: usize = 4; pub const CCAP: usize = 4; }
    #[path = "../../../models/hashbrown.rs"] pub mod hashbrown;
    #[path = "../../../models/ndarray.rs"] pub mod ndarray;
    #[path = "../../../models/rayon.rs"] pub mod rayon;
}

#[cfg(test)]
mod tests {
    use super::verif_models as m;

    fn lcg(seed: &mut u64) -> u64 { *seed = seed.wrapping_mul(6364136223846793005).wrapping_add(1442695040888963407); *seed >> 33 }

    #[test]
    fn hashmap_entry_api_agrees() {
        for s in 0..200u64 {
            let mut seed = s;
            let mut real: hashbrown::HashMap<u64, Vec<u8>> = hashbrown::HashMap::new();
            let mut model: m::hashbrown::HashMap<u64, Vec<u8>> = m::hashbrown::HashMap::new();
            for _ in 0..12 {
                let k = lcg(&mut seed) % 6;
                let v = (lcg(&mut seed) % 250) as u8;
                match lcg(&mut seed) % 5 {
                    0 => { assert_eq!(real.insert(k, vec![v]), model.insert(k, vec![v])); }
                    1 => {
                        real.entry(k).and_modify(|b| b.push(v)).or_insert_with(|| vec![v, v]);
                        model.entry(k).and_modify(|b| b.push(v)).or_insert_with(|| vec![v, v]);
                    }
                    2 => { assert_eq!(real.get(&k), model.get(&k)); assert_eq!(real.contains_key(&k), model.contains_key(&k)); }
                    3 => { if let (Some(a), Some(b)) = (real.get_mut(&k), model.get_mut(&k)) { a.push(1); b.push(1); } }
                    _ => { real.entry(k).or_default(); model.entry(k).or_default(); }
                }
                assert_eq!(real.len(), model.len());
            }
            let mut a: Vec<(u64, Vec<u8>)> = real.iter().map(|(k, v)| (*k, v.clone())).collect();
            let mut b: Vec<(u64, Vec<u8>)> = model.iter().map(|(k, v)| (*k, v.clone())).collect();
            a.sort(); b.sort();
            assert_eq!(a, b, "same finite map");
            for (_k, v) in &mut real { v.push(9); }
            for (_k, v) in &mut model { v.push(9); }
            let mut a: Vec<Vec<u8>> = real.values().cloned().collect();
            let mut b: Vec<Vec<u8>> = model.values().cloned().collect();
            a.sort(); b.sort();
            assert_eq!(a, b);
            for k in 0..6u64 { if real.contains_key(&k) { assert_eq!(real[&k], model[&k]); } }
        }
    }

    #[test]
    fn hashset_api_agrees() {
        use hashbrown::hash_set::Entry as RE;
        use m::hashbrown::hash_set::Entry as ME;
        for s in 0..200u64 {
            let mut seed = s;
            let mut real: hashbrown::HashSet<u8> = hashbrown::HashSet::new();
            let mut model: m::hashbrown::HashSet<u8> = m::hashbrown::HashSet::new();
            for _ in 0..14 {
                let k = (lcg(&mut seed) % 7) as u8;
                match lcg(&mut seed) % 4 {
                    0 => assert_eq!(real.insert(k), model.insert(k)),
                    1 => assert_eq!(real.remove(&k), model.remove(&k)),
                    2 => assert_eq!(real.contains(&k), model.contains(&k)),
                    _ => {
                        let r = match real.entry(k) { RE::Vacant(e) => { e.insert(); true } RE::Occupied(_) => false };
                        let mm = match model.entry(k) { ME::Vacant(e) => { e.insert(); true } ME::Occupied(_) => false };
                        assert_eq!(r, mm);
                    }
                }
                assert_eq!(real.len(), model.len());
                assert_eq!(real.is_empty(), model.is_empty());
            }
            let mut a: Vec<u8> = real.iter().copied().collect();
            let mut b: Vec<u8> = model.iter().copied().collect();
            a.sort(); b.sort();
            assert_eq!(a, b);
            let fr: hashbrown::HashSet<u8> = hashbrown::HashSet::from_iter(a.iter().copied());
            let fm: m::hashbrown::HashSet<u8> = m::hashbrown::HashSet::from_iter(a.iter().copied());
            let mut c: Vec<u8> = fr.into_iter().collect();
            let mut d: Vec<u8> = fm.into_iter().collect();
            c.sort(); d.sort();
            assert_eq!(c, d);
        }
    }

    fn rows_real(a: &ndarray::Array2<u8>) -> Vec<Vec<u8>> { a.outer_iter().map(|r| r.to_vec()).collect() }
    fn rows_model(a: &m::ndarray::Array2<u8>) -> Vec<Vec<u8>> { a.outer_iter().map(|r| r.to_vec()).collect() }

    #[test]
    fn array2_api_agrees_on_the_repo_unit_test_table() {
        // the table of merge_ska_array::tests::setup_struct
        let data = vec![b'A', b'G', b'Y', b'T', b'-', b'Y', b'N', b'Y', b'Y'];
        let real = ndarray::Array2::from_shape_vec((3, 3), data.clone()).unwrap();
        let model = m::ndarray::Array2::from_shape_vec((3, 3), data.clone()).unwrap();
        assert_eq!(rows_real(&real), rows_model(&model));
        assert_eq!((real.nrows(), real.ncols()), (model.nrows(), model.ncols()));
        // columns, transposed view, index_axis, slicing a column
        let cr: Vec<Vec<u8>> = real.axis_iter(ndarray::Axis(1)).map(|c| c.to_vec()).collect();
        let cm: Vec<Vec<u8>> = model.axis_iter(m::ndarray::Axis(1)).map(|c| c.to_vec()).collect();
        assert_eq!(cr, cm);
        let tr: Vec<Vec<u8>> = real.t().outer_iter().map(|c| c.to_vec()).collect();
        let tm: Vec<Vec<u8>> = model.t().outer_iter().map(|c| c.to_vec()).collect();
        assert_eq!(tr, tm);
        for j in 0..3 {
            assert_eq!(real.index_axis(ndarray::Axis(1), j).to_vec(), model.index_axis(m::ndarray::Axis(1), j).to_vec());
            assert_eq!(real.index_axis(ndarray::Axis(0), j).to_vec(), model.index_axis(m::ndarray::Axis(0), j).to_vec());
            assert_eq!(real.slice(ndarray::s![.., j]).to_vec(), model.slice(m::ndarray::s![.., j]).to_vec());
        }
        // transpose re-copied with correct strides (write_fasta), as_slice on its rows
        let vt = real.t();
        let mut ro = ndarray::Array2::<u8>::zeros(vt.raw_dim());
        ro.assign(&vt);
        let vm = model.t();
        let mut mo = m::ndarray::Array2::<u8>::zeros(vm.raw_dim());
        mo.assign(&vm);
        assert_eq!(rows_real(&ro), rows_model(&mo));
        for (a, b) in ro.outer_iter().zip(mo.outer_iter()) { assert_eq!(a.as_slice().unwrap(), b.as_slice().unwrap()); }
        // growing by rows and by columns, shape errors
        let mut gr = ndarray::Array2::<u8>::zeros((0, 3));
        let mut gm = m::ndarray::Array2::<u8>::zeros((0, 3));
        for r in real.outer_iter() { gr.push_row(r).unwrap(); }
        for r in model.outer_iter() { gm.push_row(r).unwrap(); }
        assert_eq!(rows_real(&gr), rows_model(&gm));
        let short = vec![1u8, 2];
        assert!(gr.push_row(ndarray::ArrayView::from(&short)).is_err());
        assert!(gm.push_row(m::ndarray::ArrayView::from(&short)).is_err());
        let mut cr2 = ndarray::Array2::<u8>::zeros((3, 0));
        let mut cm2 = m::ndarray::Array2::<u8>::zeros((3, 0));
        for (i, c) in real.t().outer_iter().enumerate() { if i != 1 { cr2.push_column(c).unwrap(); } }
        for (i, c) in model.t().outer_iter().enumerate() { if i != 1 { cm2.push_column(c).unwrap(); } }
        assert_eq!(rows_real(&cr2), rows_model(&cm2));
        // element-wise maps and column sums (n_sample_kmers), mapv_inplace (zeros to '-')
        let sr = real.map(|v| if *v != b'-' { 1 } else { 0 }).sum_axis(ndarray::Axis(0)).to_vec();
        let sm = model.map(|v| if *v != b'-' { 1i32 } else { 0 }).sum_axis(m::ndarray::Axis(0)).to_vec();
        assert_eq!(sr, sm);
        let mut zr = ndarray::Array2::from_shape_vec((2, 2), vec![0u8, b'A', b'C', 0]).unwrap();
        let mut zm = m::ndarray::Array2::from_shape_vec((2, 2), vec![0u8, b'A', b'C', 0]).unwrap();
        zr.mapv_inplace(|b| u8::max(b, b'-'));
        zm.mapv_inplace(|b| u8::max(b, b'-'));
        assert_eq!(rows_real(&zr), rows_model(&zm));
        assert_eq!(zr[[1, 0]], zm[[1, 0]]);
        assert!(ndarray::Array2::from_shape_vec((2, 2), vec![1u8, 2, 3]).is_err());
        assert!(m::ndarray::Array2::from_shape_vec((2, 2), vec![1u8, 2, 3]).is_err());
    }

    #[test]
    fn rayon_model_sequential_results_and_pool_contract() {
        use m::rayon::prelude::*;
        // the real pool first (any earlier use of the real pool would initialise it implicitly)
        let first = rayon::ThreadPoolBuilder::new().num_threads(2).build_global();
        let second = rayon::ThreadPoolBuilder::new().num_threads(2).build_global();
        assert!(first.is_ok() && second.is_err(), "real rayon: the second initialisation of the global pool fails");
        let (a, b) = m::rayon::join(|| 1 + 1, || "x");
        assert_eq!((a, b), rayon::join(|| 1 + 1, || "x"));
        let mut out: Vec<usize> = Vec::new();
        vec![3usize, 4, 5].into_iter().into_par_iter().enumerate().map(|(i, v)| i * v).collect_into_vec(&mut out);
        assert_eq!(out, vec![0, 4, 10]);
        let mut v = vec![1, 2, 3];
        v.par_iter_mut().enumerate().for_each(|(i, x)| *x += i);
        assert_eq!(v, vec![1, 3, 5]);
        m::rayon::model_pool_reset();
        assert!(m::rayon::ThreadPoolBuilder::new().num_threads(2).build_global().is_ok());
        assert!(m::rayon::ThreadPoolBuilder::new().num_threads(2).build_global().is_err(), "second initialisation fails, as documented for rayon");
    }
}
